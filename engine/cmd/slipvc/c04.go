package main

import (
	"strings"
	"bytes"
	"encoding/json"
	"os"
	"os/exec"
	"fmt"
	"sort"
	"sync"

	"slipvc/vc"
)

func init() {
	register(&propDef{id: "C04", run: runC04, level: "proof", technique: "documentation-derived arity contracts (FuncDoc lambda list vs CheckArgCount guard) on every built-in; WP over go/ssa; z3"})
}

func runC04(c *Ctx) {
	docs := c.P.DocArities()
	sort.Slice(docs, func(i, j int) bool { return docs[i].Pkg+docs[i].TypeName < docs[j].Pkg+docs[j].TypeName })
	pk := map[string]bool{"cl": true}
	if c.Tier == "thorough" {
		for _, p := range []string{"gi", "bag", "clos", "flavors", "generic", "net", "csv", "xml", "watch", "repl", "test"} {
			pk[p] = true
		}
	}
	so := &vc.SolveOpts{TimeoutMs: 3000, RaceTimeout: 8 * 1e9, Models: true}
	type job struct {
		doc *vc.DocArity
		fn  string
	}
	var jobs []job
	seen := map[string]bool{}
	for _, d := range docs {
		if !pk[d.Pkg] {
			continue
		}
		name := fmt.Sprintf("%s.(*%s).Call", d.Pkg, d.TypeName)
		if c.P.Funcs[name] == nil || seen[name] {
			continue
		}
		seen[name] = true
		jobs = append(jobs, job{d, name})
	}
	results := make([]*vc.FuncResult, len(jobs))
	var wg sync.WaitGroup
	sem := make(chan struct{}, 16)
	so1 := *so
	so1.ExpectFail = func(name string) bool {
		if c.Tier == "thorough" || c.WriteBase {
			return false
		}
		be, ok := c.Baseline[name]
		return ok && be.Status != "discharged"
	}
	for i, j := range jobs {
		wg.Add(1)
		sem <- struct{}{}
		go func(i int, j job) {
			defer wg.Done()
			defer func() { <-sem }()
			defer func() {
				if r := recover(); r != nil {
					results[i] = &vc.FuncResult{Fn: j.fn, Err: fmt.Sprint("engine panic: ", r)}
				}
			}()
			results[i] = vc.VerifyArity(c.P, c.P.Funcs[j.fn], j.doc, &so1)
		}(i, j)
	}
	wg.Wait()
	docByFn := map[string]*vc.DocArity{}
	for _, j := range jobs {
		docByFn[j.fn] = j.doc
	}
	c.Extra["doc_arity"] = func() map[string]string {
		m := map[string]string{}
		for fn, d := range docByFn {
			if len(m) < 40 {
				m[fn] = fmt.Sprintf("%s: [%d,%d] from %v", d.LispName, d.Min, d.Max, d.Args)
			}
		}
		return m
	}()
	c.Covers = func(name string) bool {
		i := strings.Index(name, ".")
		return i > 0 && (pk[name[:i]] || !strings.Contains(name, "/arity@"))
	}
	c04Docs = docByFn
	c.Replayer = withSpecCases(replayArity)
	c.VerifyKnown = true
	c.Extra["builtins_with_doc_contract"] = len(jobs)
	c.addResults(results)
	// functional contracts tagged C04 (apply argument spreading, lambda-list binding)
	cs := loadContracts(c)
	runContracts(c, cs, vc.Options{Safety: false, InlineDepth: 2, InlineSize: 100}, defaultSolve())
	c.Assume = append(c.Assume, "the arity guard is recognised as a call of slip.CheckArgCount on the function's own argument list (directly or in an inlined helper); built-ins that check their argument count by hand are undecided, not claimed",
		"lambda-list binding of user lambdas (Lambda.Call) is under contract separately")
}

type arityTarget struct {
	Type string `json:"type"`
	Min  int    `json:"min"`
	Max  int    `json:"max"`
}
type arityResult struct {
	Type       string `json:"type"`
	Name       string `json:"name"`
	Status     string `json:"status"`
	DocRejects []int  `json:"doc_rejects_but_accepted"`
	DocAccepts []int  `json:"doc_accepts_but_rejected"`
	Detail     string `json:"detail"`
}

var c04Docs map[string]*vc.DocArity

func replayArity(c *Ctx, items []*Item) map[string]*ReplayOutcome {
	res := map[string]*ReplayOutcome{}
	bin, err := buildHarness("arity")
	if err != nil {
		c.Notes = append(c.Notes, "arity harness: "+err.Error())
		return res
	}
	roots := map[string]bool{}
	var targets []arityTarget
	for _, it := range items {
		if roots[it.Root] {
			continue
		}
		roots[it.Root] = true
		d := c04Docs[it.Root]
		if d == nil {
			continue
		}
		targets = append(targets, arityTarget{Type: goTypeOfRoot(it.Root), Min: d.Min, Max: d.Max})
	}
	out := map[string]*arityResult{}
	remaining := targets
	scratch, _ := os.MkdirTemp("", "slipvc-arity-")
	defer os.RemoveAll(scratch)
	for attempt := 0; attempt < 20 && len(remaining) > 0; attempt++ {
		in, _ := json.Marshal(remaining)
		cmd := exec.Command(bin)
		cmd.Dir = scratch
		cmd.Stdin = bytes.NewReader(in)
		var stdout bytes.Buffer
		cmd.Stdout = &stdout
		_ = cmd.Run()
		dec := json.NewDecoder(&stdout)
		n := 0
		for {
			var r arityResult
			if err := dec.Decode(&r); err != nil {
				break
			}
			rr := r
			out[r.Type] = &rr
			n++
		}
		if n >= len(remaining) {
			break
		}
		remaining = remaining[n+1:]
	}
	for _, it := range items {
		r := out[goTypeOfRoot(it.Root)]
		oc := &ReplayOutcome{Harness: "arity"}
		if it.Kind != "arity" {
			res[it.Name] = oc
			continue
		}
		if r != nil && r.Status == "ok" {
			oc.Ran = true
			d := c04Docs[it.Root]
			if len(r.DocRejects) > 0 || len(r.DocAccepts) > 0 {
				oc.Failed = true
				oc.Class = fmt.Sprintf("accepted-but-undocumented n=%v rejected-but-documented n=%v", r.DocRejects, r.DocAccepts)
				oc.Input = fmt.Sprintf("(%s ...) with %s", r.Name, oc.Class)
				oc.Observed = r.Detail
				oc.Expected = fmt.Sprintf("documented lambda list %v allows [%d,%d] arguments", d.Args, d.Min, d.Max)
			}
		}
		res[it.Name] = oc
	}
	return res
}
