package main

import (
	"encoding/json"
	"os"
	"os/exec"
	"strings"

	"slipvc/vc"
)

func init() {
	register(&propDef{id: "C05", run: runC05, level: "proof", technique: "contracts on the numeric built-ins: machine-integer exactness (ghost exact value vs wrapped machine value), safety; WP over go/ssa; z3"})
}

func runC05(c *Ctx) {
	cs := loadContracts(c)
	c.Replayer = replayArith
	opt := vc.Options{Safety: true, InlineDepth: 2, InlineSize: 100}
	runContracts(c, cs, opt, defaultSolve())
	c.Assume = append(c.Assume, "math/big arithmetic is assumed exact (dependency)", "float branches are not covered")
}

var arithOps = map[string][]string{
	"cl.addNumbers": {"+"}, "cl.(*Add).Call": {"+"}, "cl.(*Subtract).Call": {"-", "-/1"}, "cl.(*Multiply).Call": {"*"}, "cl.(*Divide).Call": {"/"},
	"cl.floor": {"floor", "mod"}, "cl.ceiling": {"ceiling"}, "cl.truncate": {"truncate", "rem"}, "cl.round": {"round"},
	"cl.(*Mod).Call": {"mod"}, "cl.(*Rem).Call": {"rem"}, "cl.(*Abs).Call": {"abs/1"}, "cl.(*Oneplus).Call": {"1+/1"}, "cl.(*Oneminus).Call": {"1-/1"},
	"cl.(*Gcd).Call": {"gcd"}, "cl.gcd": {"gcd"}, "cl.(*Isqrt).Call": {"isqrt/1", "isqrt"}, "cl.(*Decf).Call": {"decf-second"}, "cl.(*Incf).Call": {"incf-second"},
	"cl.(*Lt).Call": {"<"}, "cl.(*Gt).Call": {">"}, "cl.(*Lte).Call": {"<="}, "cl.(*Gte).Call": {">="}, "cl.(*Same).Call": {"="}, "cl.(*Max).Call": {"max"}, "cl.(*Min).Call": {"min"},
}

type arithFailure struct {
	Op, Lisp, Got, Want, Kind string
}

func runArith(c *Ctx) ([]arithFailure, error) {
	bin, err := buildHarness("arith")
	if err != nil {
		return nil, err
	}
	scratch, _ := os.MkdirTemp("", "slipvc-arith-")
	defer os.RemoveAll(scratch)
	cmd := exec.Command(bin)
	cmd.Dir = scratch
	out, err := cmd.Output()
	if err != nil {
		return nil, err
	}
	var res struct {
		Failures []arithFailure `json:"failures"`
	}
	if err := json.Unmarshal(out, &res); err != nil {
		return nil, err
	}
	return res.Failures, nil
}

func replayArith(c *Ctx, items []*Item) map[string]*ReplayOutcome {
	res := map[string]*ReplayOutcome{}
	fails, err := runArith(c)
	if err != nil {
		c.Notes = append(c.Notes, "arith harness: "+err.Error())
		return res
	}
	for _, it := range items {
		oc := &ReplayOutcome{Harness: "arith", Ran: true}
		for _, op := range arithOps[it.Root] {
			for _, f := range fails {
				if f.Op != op {
					continue
				}
				match := false
				switch {
				case strings.HasPrefix(it.Kind, "exact"):
					match = f.Kind == "value"
				case strings.HasPrefix(it.Kind, "safe:div"):
					match = f.Kind == "fault"
				case strings.HasPrefix(it.Kind, "fresh-recv"), strings.HasPrefix(it.Kind, "post"):
					match = true
				}
				if match && !oc.Failed {
					oc.Failed = true
					oc.Input = f.Lisp
					oc.Observed = f.Got
					oc.Expected = f.Want
				}
			}
		}
		res[it.Name] = oc
	}
	return res
}
