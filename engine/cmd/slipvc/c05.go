package main

import (
	"regexp"
	"sort"

	"golang.org/x/tools/go/ssa"
	"encoding/json"
	"os"
	"os/exec"
	"strings"

	"slipvc/vc"
)

func init() {
	register(&propDef{id: "C05", run: runC05, level: "proof", technique: "contracts on the numeric built-ins: machine-integer exactness (ghost exact value vs wrapped machine value), safety; WP over go/ssa; z3"})
}

func runC05(c *Ctx) {
	cs := loadContracts(c)
	c.Replayer = replayArith
	opt := vc.Options{Safety: true, InlineDepth: 2, InlineSize: 100}
	runContracts(c, cs, opt, defaultSolve())
	sweepOperands(c, cs, opt)
	c.Assume = append(c.Assume, "math/big arithmetic is assumed exact (dependency)", "float branches are not covered")
}

// sweepOperands: the package-wide contract `every-function <pkg> operands-kept`: every function of the
// package that calls a mutating math/big method (directly, or in a helper inlined into it) is verified
// with the family-O obligations. Functions that have a contract block of their own carrying
// operands-kept were already verified by runContracts.
func sweepOperands(c *Ctx, cs *vc.Contracts, opt vc.Options) {
	pkgs := map[string]bool{}
	for _, p := range cs.Sweeps["operands-kept"] {
		// quick: the arithmetic package; thorough: every package that carries the clause
		if p == "cl" || c.Tier == "thorough" {
			pkgs[p] = true
		}
	}
	c.Covers = func(name string) bool {
		return c.Tier == "thorough" || strings.HasPrefix(name, "cl.") || !strings.Contains(name, "/operand-kept@")
	}
	if len(pkgs) == 0 {
		return
	}
	var names []string
	for n := range c.P.Funcs {
		names = append(names, n)
	}
	sort.Strings(names)
	var roots []*ssa.Function
	for _, n := range names {
		fn := c.P.Funcs[n]
		if !pkgs[pkgShort(fn)] || len(fn.Blocks) == 0 || fn.Parent() != nil {
			continue
		}
		if ct := cs.ByFunc[n]; ct != nil {
			done := false
			for _, p := range ct.Props {
				if p == c.Prop {
					done = true
				}
			}
			if done {
				continue
			}
		}
		if vc.CallsBigMutator(fn) {
			roots = append(roots, fn)
		}
	}
	o := opt
	o.Contracts = cs
	o.OperandsKept = true
	o.Safety = false
	res := c.runUnits(roots, o, defaultSolve(), 16)
	// only the package-wide clause: obligations of a contract block that belongs to another property stay with that property
	for _, r := range res {
		if r == nil {
			continue
		}
		var keep []*vc.Obligation
		for _, ob := range r.Obls {
			if strings.HasPrefix(ob.Kind, "operand-kept") {
				keep = append(keep, ob)
			}
		}
		r.Obls = keep
	}
	c.addResults(res)
	c.Extra["operands_kept_sweep_functions"] = len(roots)
}

var arithOps = map[string][]string{
	"cl.addNumbers": {"+", "incf-second", "decf-second"}, "cl.(*Add).Call": {"+"}, "cl.(*Subtract).Call": {"-", "-/1"}, "cl.(*Multiply).Call": {"*"}, "cl.(*Divide).Call": {"/"},
	"cl.floor": {"floor", "mod"}, "cl.ceiling": {"ceiling"}, "cl.truncate": {"truncate", "rem"}, "cl.round": {"round"},
	"cl.(*Mod).Call": {"mod"}, "cl.(*Rem).Call": {"rem"}, "cl.(*Abs).Call": {"abs/1", "abs"}, "cl.(*Oneplus).Call": {"1+/1", "1+"}, "cl.(*Oneminus).Call": {"1-/1", "1-"},
	"cl.(*Gcd).Call": {"gcd"}, "cl.gcd": {"gcd"}, "cl.(*Lcm).Call": {"lcm"}, "cl.(*Isqrt).Call": {"isqrt/1", "isqrt"}, "cl.(*Decf).Call": {"decf-second"}, "cl.(*Incf).Call": {"incf-second"},
	"cl.(*Lt).Call": {"<", "compare"}, "cl.(*Gt).Call": {">", "compare"}, "cl.(*Lte).Call": {"<=", "compare"}, "cl.(*Gte).Call": {">=", "compare"}, "cl.(*Same).Call": {"=", "compare"}, "cl.(*Max).Call": {"max"}, "cl.(*Min).Call": {"min"},
	"cl.(*IntegerLength).Call": {"integer-length"}, "cl.(*control).getEFGarg": {"format-e"}, "cl.(*Ldb).Place": {"setf-ldb"}, "cl.(*MaskField).Place": {"setf-mask-field"},
	"cl.(*Expt).Call": {"expt"}, "cl.(*Ash).Call": {"ash"}, "cl.(*Logand).Call": {"logand"}, "cl.(*Logior).Call": {"logand"}, "cl.(*Logxor).Call": {"logand"}, "cl.(*Lognot).Call": {"logand"},
	"cl.(*Signum).Call": {"signum"}, "cl.(*Evenp).Call": {"signum"}, "cl.(*Oddp).Call": {"signum"}, "cl.(*Numerator).Call": {"numerator"}, "cl.(*Denominator).Call": {"numerator"},
	"cl.(*Zerop).Call": {"compare"}, "cl.(*Plusp).Call": {"compare"}, "cl.(*Minusp).Call": {"compare"},
}

type arithFailure struct {
	Op, Lisp, Got, Want, Kind, Class string
}

var modelInt = regexp.MustCompile(`\(- ([0-9]+)\)|\b([0-9]+)\b`)

// modelValues: the integers of the solver models of the refuted bignum clauses (replayed as forced bignums).
func modelValues(items []*Item) string {
	seen := map[string]bool{}
	var out []string
	for _, it := range items {
		if !strings.Contains(it.Name, "post@bignum-") || it.Model == "" {
			continue
		}
		for _, line := range strings.Split(it.Model, "\n") {
			i := strings.LastIndex(line, ")) ")
			_ = i
			for _, m := range regexp.MustCompile(`\)\) (\(- [0-9]+\)|[0-9]+)\)`).FindAllStringSubmatch(line, -1) {
				v := strings.TrimSuffix(strings.TrimPrefix(m[1], "(- "), ")")
				if strings.HasPrefix(m[1], "(- ") {
					v = "-" + v
				}
				if !seen[v] && len(out) < 12 {
					seen[v] = true
					out = append(out, v)
				}
			}
		}
	}
	return strings.Join(out, ",")
}

func runArith(c *Ctx) ([]arithFailure, error) {
	bin, err := buildHarness("arith")
	if err != nil {
		return nil, err
	}
	scratch, _ := os.MkdirTemp("", "slipvc-arith-")
	defer os.RemoveAll(scratch)
	cmd := exec.Command(bin)
	cmd.Dir = scratch
	if c.arithExtra != "" {
		cmd.Env = append(os.Environ(), "ARITH_EXTRA="+c.arithExtra)
	}
	out, err := cmd.Output()
	if err != nil {
		return nil, err
	}
	var res struct {
		Failures []arithFailure `json:"failures"`
	}
	if err := json.Unmarshal(out, &res); err != nil {
		return nil, err
	}
	return res.Failures, nil
}

func replayArith(c *Ctx, items []*Item) map[string]*ReplayOutcome {
	res := map[string]*ReplayOutcome{}
	c.arithExtra = modelValues(items)
	fails, err := runArith(c)
	if err != nil {
		c.Notes = append(c.Notes, "arith harness: "+err.Error())
		return res
	}
	for _, it := range items {
		oc := &ReplayOutcome{Harness: "arith", Ran: true}
		if it.Status == "unknown" || it.Status == "timeout" {
			// no refutation from the solver: a failure of the same operator elsewhere is not evidence
			// against this obligation
			res[it.Name] = oc
			continue
		}
		for _, op := range arithOps[it.Root] {
			for _, f := range fails {
				if f.Op != op {
					continue
				}
				match := false
				switch {
				case strings.HasPrefix(it.Kind, "operand-kept"):
					match = f.Kind == "mutated"
				case strings.HasPrefix(it.Kind, "exact"):
					// a wrapped machine integer needs an operand at the edge of the fixnum range
					match = f.Kind == "value" && f.Class == "edge"
				case strings.HasPrefix(it.Kind, "safe:div"):
					match = f.Kind == "fault"
				case strings.HasPrefix(it.Kind, "post"):
					// the failing input must lie inside the clause's precondition
					switch {
					case strings.Contains(it.Name, "post@fixnum-"):
						match = f.Kind == "value" && f.Class == "small"
					case strings.Contains(it.Name, "post@bignum-"):
						match = f.Kind == "value" && f.Class == "big"
					default:
						match = true
					}
				}
				if match && !oc.Failed {
					oc.Failed = true
					oc.Input = f.Lisp
					oc.Observed = f.Got
					oc.Expected = f.Want
				}
			}
		}
		res[it.Name] = oc
	}
	return res
}
