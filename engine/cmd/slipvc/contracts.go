package main

import (
	"fmt"
	"os"
	"sort"
	"time"

	"golang.org/x/tools/go/ssa"

	"slipvc/vc"
)

// loadContracts reads the contract corpus from /repo (verif_contracts.go files).
func loadContracts(c *Ctx) *vc.Contracts {
	cs, files, err := vc.LoadContracts(repoDir)
	if err != nil {
		fmt.Println("ERROR: contract corpus:", err)
		os.Exit(2)
	}
	cs.Attach(c.P)
	c.Extra["contract_files"] = files
	for _, a := range cs.Assumed {
		c.Trusted = append(c.Trusted, "assumed contract: "+a)
	}
	return cs
}

// runContracts verifies every function whose contract is tagged with the property.
func runContracts(c *Ctx, cs *vc.Contracts, opt vc.Options, so *vc.SolveOpts) int {
	var fns []*ssa.Function
	var names []string
	for _, n := range cs.Order {
		ct := cs.ByFunc[n]
		for _, p := range ct.Props {
			if p == c.Prop {
				names = append(names, n)
			}
		}
	}
	sort.Strings(names)
	for _, n := range names {
		fn := c.P.Funcs[n]
		if fn == nil {
			// a function under contract disappeared: the contract cannot be checked
			c.AddItem(&Item{Name: n + "/exists", Kind: "exists", Status: "failed", Root: n, Model: "function under contract not found in /repo"})
			continue
		}
		fns = append(fns, fn)
	}
	opt.Contracts = cs
	results := c.runUnits(fns, opt, so, 16)
	for _, r := range results {
		if r != nil && r.Err == "" && len(r.Obls) == 0 {
			c.AddItem(&Item{Name: r.Fn + "/nonvacuous", Kind: "vacuity", Status: "failed", Root: r.Fn, Model: "zero obligations generated for a function under contract"})
		}
		if r != nil && r.Err != "" {
			c.AddItem(&Item{Name: r.Fn + "/verifiable", Kind: "subset", Status: "unknown", Root: r.Fn, Model: r.Err})
		}
	}
	c.addResults(results)
	return len(fns)
}

func defaultSolve() *vc.SolveOpts {
	return &vc.SolveOpts{TimeoutMs: 5000, RaceTimeout: 8 * time.Second, Models: true}
}
