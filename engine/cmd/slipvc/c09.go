package main

import (
	"bytes"
	"encoding/json"
	"fmt"
	"go/types"
	"os"
	"os/exec"
	"regexp"
	"sort"
	"strings"
	"time"

	"golang.org/x/tools/go/ssa"

	"slipvc/vc"
)

func init() {
	register(&propDef{id: "C09", run: runC09, level: "proof", technique: "zero-annotation safety contracts (index/slice/assert/div/nil-map/hash-key) on every built-in Call; WP over go/ssa; z3"})
}

var c09Pkgs = []string{"cl", "gi", "bag", "clos", "flavors", "generic"}

// isCallMethod: func (f *T) Call(s *slip.Scope, args slip.List, depth int) slip.Object
func isCallMethod(fn *ssa.Function) bool {
	if fn.Name() != "Call" || fn.Signature.Recv() == nil {
		return false
	}
	sig := fn.Signature
	if sig.Params().Len() != 3 || sig.Results().Len() != 1 {
		return false
	}
	return strings.HasSuffix(sig.Params().At(1).Type().String(), "slip.List")
}

func pkgShort(fn *ssa.Function) string {
	if fn.Pkg == nil || fn.Pkg.Pkg == nil {
		return ""
	}
	p := fn.Pkg.Pkg.Path()
	if p == vc.ModPath {
		return "slip"
	}
	return strings.TrimPrefix(p, vc.ModPath+"/pkg/")
}

func sortedFuncs(m map[*ssa.Function]bool) []*ssa.Function {
	var out []*ssa.Function
	for f := range m {
		out = append(out, f)
	}
	sort.Slice(out, func(i, j int) bool { return vc.FuncName(out[i]) < vc.FuncName(out[j]) })
	return out
}

func sweepOptions() vc.Options {
	return vc.Options{Safety: true, InlineDepth: 3, InlineSize: 120}
}

// sweep runs the two-pass safety sweep over the given roots.
func sweep(c *Ctx, roots []*ssa.Function, so *vc.SolveOpts) {
	opt := sweepOptions()
	// proved helper contracts the sweep may use at call sites (the helper's own obligations belong to the property
	// its contract is tagged with): NormalizeNumber returns both numbers in one representation
	if all, _, err := vc.LoadContracts(repoDir); err == nil {
		helper := &vc.Contracts{ByFunc: map[string]*vc.Contract{}, Specs: all.Specs, PureMethods: all.PureMethods, PureFuncs: all.PureFuncs, StableStructs: all.StableStructs}
		for _, n := range []string{"slip.NormalizeNumber", "slip.(*SignedByte).AsFixOrBig", "slip.(*UnsignedByte).AsFixOrBig"} {
			if ct := all.ByFunc[n]; ct != nil {
				helper.ByFunc[n] = ct
			}
		}
		helper.Attach(c.P)
		opt.Contracts = helper
		c.Assume = append(c.Assume, "the sweep uses the contracts of slip.NormalizeNumber and AsFixOrBig at their call sites (proved under C05)")
	}
	// pass A: every function that pass B may inline, standalone
	inl := vc.InlineClosure(c.P, roots, &opt)
	optA := opt
	optA.RootSafetyOnly = true
	resA := c.runUnits(sortedFuncs(inl), optA, so, 16)
	proven := map[string]bool{}
	nA, nAok := 0, 0
	for _, r := range resA {
		if r == nil || r.Err != "" {
			continue
		}
		for _, o := range r.Obls {
			nA++
			if o.Status == "discharged" {
				proven[o.Owner] = true
				nAok++
			}
		}
	}
	c.Extra["helper_functions_standalone"] = len(inl)
	c.Extra["helper_obligations_standalone"] = nA
	c.Extra["helper_obligations_proved_standalone"] = nAok
	optB := opt
	optB.SkipProven = proven
	resB := c.runUnits(roots, optB, so, 16)
	c.addResults(resB)
}

func runC09(c *Ctx) {
	pk := map[string]bool{"cl": true}
	if c.Tier == "thorough" {
		for _, p := range c09Pkgs {
			pk[p] = true
		}
	}
	var roots []*ssa.Function
	var names []string
	for n := range c.P.Funcs {
		names = append(names, n)
	}
	sort.Strings(names)
	anchorFiles := map[string]bool{"code.go": true, "character.go": true, "pkg/cl/control.go": true, "pkg/cl/format.go": true, "runereader.go": true,
		// the evaluator core every built-in goes through: name resolution, scopes, function objects, lambda binding
		"scope.go": true, "function.go": true, "lambda.go": true, "symbol.go": true, "list.go": true, "values.go": true, "dynamic.go": true, "hash-table.go": true, "argcounterror.go": true}
	rootAll := c.Tier == "thorough" || c.WriteBase
	for _, n := range names {
		fn := c.P.Funcs[n]
		if pk[pkgShort(fn)] && isCallMethod(fn) {
			roots = append(roots, fn)
			continue
		}
		// the helpers of the built-ins (shared keyword parsers, scanners, comparison and conversion helpers) are
		// swept on their own as well: a helper that is too large to be inlined, or has a loop, is otherwise
		// nobody's obligation
		if pk[pkgShort(fn)] && fn.Parent() == nil && len(fn.Blocks) > 0 && fn.Synthetic == "" && fn.Pos().IsValid() && !strings.Contains(fn.Name(), "init") {
			file := c.P.SSA.Fset.Position(fn.Pos()).Filename
			if !strings.HasSuffix(file, "_test.go") {
				roots = append(roots, fn)
				continue
			}
		}
		if fn.Pos().IsValid() && fn.Parent() == nil {
			file := strings.TrimPrefix(c.P.SSA.Fset.Position(fn.Pos()).Filename, repoDir+"/")
			if len(fn.Blocks) > 0 && (anchorFiles[file] || (rootAll && pkgShort(fn) == "slip" && !strings.HasSuffix(file, "_test.go") && !strings.Contains(fn.Name(), "init"))) {
				roots = append(roots, fn)
			}
		}
	}
	so := &vc.SolveOpts{TimeoutMs: 2000, RaceTimeout: 6 * time.Second, Models: true}
	c.Replayer = replayCallFault
	if !rootAll {
		// the helpers whose contracts the sweep uses are themselves swept (with their contract clauses) only in the
		// thorough tier, where the whole root package is in scope
		c.Covers = func(name string) bool {
			for _, h := range []string{"slip.NormalizeNumber/", "slip.(*SignedByte).AsFixOrBig/", "slip.(*UnsignedByte).AsFixOrBig/"} {
				if strings.HasPrefix(name, h) {
					return false
				}
			}
			return true
		}
	}
	sweep(c, roots, so)
	// hand-written guard contracts (a callee reached through an interface indexes unchecked: the caller's guard is
	// the only protection)
	cs := loadContracts(c)
	runContracts(c, cs, vc.Options{Safety: false, InlineDepth: 2, InlineSize: 100}, defaultSolve())
	c.Assume = append(c.Assume,
		"the clause 'in bounded time / no hang / no unbounded allocation' is not decided (partial correctness)",
		"nil-pointer dereference is not among the generated obligations",
		"calls to functions that are not inlined (larger than 120 SSA instructions, recursive, with defer, or dynamic) are abstracted: result unconstrained, heap components in their static modification set forgotten; their own bodies are obligations of their own only if they are Call methods",
		"library functions outside the module are assumed not to fault")
	c.Extra["explanation"] = "every index, slice, non-comma-ok type assertion, integer division, nil-map write, dynamic map key and make size in the Call methods (and the helpers inlined into them) must be safe for ALL argument lists; undecided ones are candidates, counted only after replay"
}

// ---------------------------------------------------------------------------
// replay through the callfault harness

type cfTarget struct {
	Type  string     `json:"type"`
	Pos   []string   `json:"pos"`
	NArgs []int      `json:"nargs"`
	Tags  [][]string `json:"tags"`
}
type cfFault struct {
	Pos   string `json:"pos"`
	Panic string `json:"panic"`
	Args  string `json:"args"`
	Lisp  string `json:"lisp"`
	NArgs int    `json:"nargs"`
}
type cfResult struct {
	Type   string    `json:"type"`
	Name   string    `json:"name"`
	Status string    `json:"status"`
	Calls  int       `json:"calls"`
	Faults []cfFault `json:"faults"`
}

var recvRe = regexp.MustCompile(`^([a-z]+)\.\(\*([A-Za-z0-9_]+)\)\.Call$`)

func goTypeOfRoot(root string) string {
	m := recvRe.FindStringSubmatch(root)
	if m == nil {
		return ""
	}
	return "*" + m[1] + "." + m[2]
}

func buildHarness(name string) (string, error) {
	bin := verifDir + "/bin/" + name
	_ = os.WriteFile(verifDir+"/harness/go.sum", mustRead(repoDir+"/go.sum"), 0o644)
	args := []string{"build", "-o", bin}
	if repoDir != "/repo" {
		// development only (seed matrix against a scratch worktree): same harness, module replaced by that tree
		mod := strings.Replace(string(mustRead(verifDir+"/harness/go.mod")), "=> /repo", "=> "+repoDir, 1)
		_ = os.WriteFile(verifDir+"/harness/go.alt.mod", []byte(mod), 0o644)
		_ = os.WriteFile(verifDir+"/harness/go.alt.sum", mustRead(repoDir+"/go.sum"), 0o644)
		args = append(args, "-modfile=go.alt.mod")
	}
	cmd := exec.Command("go", append(args, "./"+name)...)
	cmd.Dir = verifDir + "/harness"
	out, err := cmd.CombinedOutput()
	if err != nil {
		// a replay harness that does not build is an engine fault, not a verdict
		fmt.Printf("ERROR: replay harness %s does not build: %v: %s\n", name, err, out)
		os.Exit(2)
	}
	return bin, nil
}

func mustRead(p string) []byte {
	b, _ := os.ReadFile(p)
	return b
}

func runCallFault(c *Ctx, targets []cfTarget, budget int) (map[string]*cfResult, error) {
	bin, err := buildHarness("callfault")
	if err != nil {
		return nil, err
	}
	scratch, _ := os.MkdirTemp("", "slipvc-replay-")
	defer os.RemoveAll(scratch)
	out := map[string]*cfResult{}
	var skip []string
	remaining := targets
	for attempt := 0; attempt < 30 && len(remaining) > 0; attempt++ {
		req := map[string]any{"targets": remaining, "seed": c.Seed, "budget": budget, "skip": skip}
		in, _ := json.Marshal(req)
		cmd := exec.Command(bin)
		cmd.Dir = scratch
		cmd.Stdin = bytes.NewReader(in)
		var stdout bytes.Buffer
		cmd.Stdout = &stdout
		done := make(chan error, 1)
		_ = cmd.Start()
		go func() { done <- cmd.Wait() }()
		select {
		case <-done:
		case <-time.After(15 * time.Minute):
			_ = cmd.Process.Kill()
			<-done
		}
		dec := json.NewDecoder(&stdout)
		n := 0
		for {
			var r cfResult
			if err := dec.Decode(&r); err != nil {
				break
			}
			rr := r
			out[r.Type] = &rr
			n++
		}
		if n >= len(remaining) {
			break
		}
		// the harness died at target n (hang, os.Exit inside the function, crash): skip it
		if n < len(remaining) {
			if _, ok := out[remaining[n].Type]; !ok {
				out[remaining[n].Type] = &cfResult{Type: remaining[n].Type, Status: "died"}
			}
			remaining = remaining[n+1:]
		}
	}
	return out, nil
}

func replayCallFault(c *Ctx, items []*Item) map[string]*ReplayOutcome {
	byRoot := map[string][]*Item{}
	for _, it := range items {
		byRoot[it.Root] = append(byRoot[it.Root], it)
	}
	var targets []cfTarget
	var roots []string
	for r := range byRoot {
		roots = append(roots, r)
	}
	sort.Strings(roots)
	for _, r := range roots {
		gt := goTypeOfRoot(r)
		if gt == "" {
			continue
		}
		t := cfTarget{Type: gt}
		for _, it := range byRoot[r] {
			if it.Pos != "" {
				t.Pos = append(t.Pos, it.Pos)
			}
		}
		targets = append(targets, t)
	}
	res := map[string]*ReplayOutcome{}
	if len(targets) == 0 {
		return res
	}
	budget := 1500
	if c.Tier == "thorough" {
		budget = 6000
	}
	out, err := runCallFault(c, targets, budget)
	if err != nil {
		c.Notes = append(c.Notes, "replay harness: "+err.Error())
		return res
	}
	for _, r := range roots {
		cr := out[goTypeOfRoot(r)]
		for _, it := range byRoot[r] {
			oc := &ReplayOutcome{Harness: "call-fault"}
			if cr == nil {
				oc.Note = "no harness result"
				res[it.Name] = oc
				continue
			}
			oc.Ran = cr.Status == "ok"
			oc.Note = fmt.Sprintf("harness status %s, %d calls of (%s ...)", cr.Status, cr.Calls, cr.Name)
			for _, f := range cr.Faults {
				if f.Pos == it.Pos && faultKindMatches(it.Kind, f.Panic) {
					oc.Failed = true
					oc.Input = f.Lisp + "   ; argument types: " + f.Args
					oc.Observed = f.Panic + " at " + f.Pos
					oc.Expected = "a value or a Lisp condition"
				}
			}
			res[it.Name] = oc
		}
	}
	return res
}

var _ = types.Typ

func faultKindMatches(kind, panicMsg string) bool {
	switch kind {
	case "safe:index":
		return strings.Contains(panicMsg, "index out of range")
	case "safe:slice":
		return strings.Contains(panicMsg, "slice bounds out of range")
	case "safe:assert":
		return strings.Contains(panicMsg, "interface conversion")
	case "safe:div":
		return strings.Contains(panicMsg, "divide by zero")
	case "safe:makeslice":
		return strings.Contains(panicMsg, "makeslice")
	case "safe:hashkey":
		return strings.Contains(panicMsg, "unhashable")
	case "safe:nilmap":
		return strings.Contains(panicMsg, "nil map")
	}
	return true
}
