package main

import (
	"regexp"
	"crypto/sha256"
	"encoding/json"
	"flag"
	"fmt"
	"os"
	"path/filepath"
	"runtime/debug"
	"sort"
	"strconv"
	"strings"
	"sync"
	"time"

	"golang.org/x/tools/go/ssa"

	"slipvc/vc"
)

var verifDir = envOr("SLIPVC_VERIF", "/verif")

// repoDir is the tree under verification (always /repo for registered commands; development tools point it at a scratch worktree)
var repoDir = envOr("SLIPVC_REPO", "/repo")

func envOr(k, d string) string {
	if v := os.Getenv(k); v != "" {
		return v
	}
	return d
}

// Item is one decided unit of a check: an obligation (or a bounded stand-in).
type Item struct {
	Name    string  `json:"name"`
	Kind    string  `json:"kind"`
	Status  string  `json:"status"` // discharged | failed | unknown | bounded-ok | bounded-fail
	Solver  string  `json:"solver,omitempty"`
	Secs    float64 `json:"secs,omitempty"`
	Hash    string  `json:"hash,omitempty"`
	Pos     string  `json:"pos,omitempty"`
	Model   string  `json:"model,omitempty"`
	Root    string  `json:"root,omitempty"`  // function under contract
	Owner   string  `json:"owner,omitempty"` // owner/local name
	Script  string  `json:"-"`
	Bounded string  `json:"bounded,omitempty"` // stated bound for bounded stand-ins
}

type BaseEntry struct {
	Status string `json:"status"`
	Hash   string `json:"hash"`
}

type Finding struct {
	Property   string `json:"property"`
	Obligation string `json:"obligation"`
	InputClass string `json:"input_class"`
	What       string `json:"what"`
	Status     string `json:"status"` // open | fixed
	Commit     string `json:"commit,omitempty"`
	Example    string `json:"example,omitempty"`
}

type ReplayOutcome struct {
	Ran       bool   `json:"ran"`
	Failed    bool   `json:"failed_oracle"` // the real code violates the property on this input
	Input     string `json:"input,omitempty"`
	Observed  string `json:"observed,omitempty"`
	Expected  string `json:"expected,omitempty"`
	Harness   string `json:"harness,omitempty"`
	Note      string `json:"note,omitempty"`
	Class     string `json:"class,omitempty"` // input class (compared with a known finding's input_class)
}

type Ctx struct {
	Prop      string
	Tier      string
	Seed      int64
	P         *vc.Prog
	Baseline  map[string]BaseEntry
	Known     []Finding
	Items     []*Item
	Functions map[string]string // function under contract -> ssa hash
	Shapes    map[string]string // every function that was run (also the unverifiable ones) -> name-erased SSA hash
	Assume    []string
	Trusted   []string
	Notes     []string
	Bounded   []string
	Samples   []any
	Extra     map[string]any
	Replayer  func(ctx *Ctx, items []*Item) map[string]*ReplayOutcome // by item name
	T0        time.Time
	WriteBase bool
	Propose   string
	VerifyKnown bool // replay known findings too and compare their input class
	Covers func(name string) bool
	arithExtra string // operand values taken from solver models, handed to the arith harness
	mu        sync.Mutex
}

// tierCovers: is the obligation within the scope of this tier? (quick runs cover a subset of the baseline's names)
func (c *Ctx) tierCovers(name string) bool {
	if c.Covers != nil {
		return c.Covers(name)
	}
	return true
}

func (c *Ctx) AddItem(it *Item) {
	c.mu.Lock()
	c.Items = append(c.Items, it)
	c.mu.Unlock()
}

type propDef struct {
	id        string
	run       func(c *Ctx)
	level     string
	technique string
}

var props = map[string]*propDef{}

func register(p *propDef) { props[p.id] = p }

func loadJSON(path string, v any) bool {
	b, err := os.ReadFile(path)
	if err != nil {
		return false
	}
	return json.Unmarshal(b, v) == nil
}

func hashStr(s string) string {
	h := sha256.Sum256([]byte(s))
	return fmt.Sprintf("%x", h[:8])
}

func allPatterns() []string {
	return []string{vc.ModPath, vc.ModPath + "/pkg/...", vc.ModPath + "/pp"}
}

func checkCmd(args []string) {
	fs := flag.NewFlagSet("check", flag.ExitOnError)
	prop := fs.String("prop", "", "property id")
	tier := fs.String("tier", "quick", "quick|thorough")
	writeBase := fs.Bool("write-baseline", false, "record the outcome as the baseline of the pinned tree (development only)")
	propose := fs.String("propose-findings", "", "development: replay every undecided obligation and write confirmed ones as proposed findings to this file")
	fs.Parse(args)
	if t := os.Getenv("VERIF_TIER"); t != "" && *tier == "" {
		*tier = t
	}
	seed := int64(1)
	if s := os.Getenv("VERIF_SEED"); s != "" {
		if n, err := strconv.ParseInt(s, 10, 64); err == nil {
			seed = n
		}
	}
	pd := props[*prop]
	if pd == nil {
		fmt.Println("unknown property", *prop)
		os.Exit(2)
	}
	t0 := time.Now()
	c := &Ctx{Prop: *prop, Tier: *tier, Seed: seed, Functions: map[string]string{}, Shapes: map[string]string{}, Extra: map[string]any{}, Assume: []string{}, Notes: []string{}, Bounded: []string{}, T0: t0, WriteBase: *writeBase, Propose: *propose}
	c.Baseline = map[string]BaseEntry{}
	loadJSON(filepath.Join(verifDir, "baseline", *prop+".json"), &c.Baseline)
	var all []Finding
	loadJSON(filepath.Join(verifDir, "known-findings.json"), &all)
	for _, f := range all {
		if f.Property == *prop {
			c.Known = append(c.Known, f)
		}
	}
	p, err := vc.Load(repoDir, allPatterns()...)
	if err != nil {
		// the tree does not build: nothing can be decided; report as broken run
		fmt.Println("ERROR: cannot load /repo:", err)
		os.Exit(2)
	}
	c.P = p
	func() {
		defer func() {
			if r := recover(); r != nil {
				fmt.Println("ERROR: engine panic:", r)
				fmt.Println(string(debug.Stack()))
				os.Exit(2)
			}
		}()
		pd.run(c)
	}()
	os.Exit(finish(c, pd))
}

// runUnits verifies functions in parallel and adds their obligations as items.
func (c *Ctx) runUnits(fns []*ssa.Function, opt vc.Options, so0 *vc.SolveOpts, workers int) []*vc.FuncResult {
	so1 := *so0
	so := &so1
	if so.ExpectFail == nil {
		so.ExpectFail = func(name string) bool {
			if strings.Contains(name, "@canary") {
				return true
			}
			if c.Tier == "thorough" || c.WriteBase {
				return false
			}
			be, ok := c.Baseline[name]
			return ok && be.Status != "discharged"
		}
	}
	results := make([]*vc.FuncResult, len(fns))
	var wg sync.WaitGroup
	sem := make(chan struct{}, workers)
	for i, fn := range fns {
		wg.Add(1)
		sem <- struct{}{}
		go func(i int, fn *ssa.Function) {
			defer wg.Done()
			defer func() { <-sem }()
			defer func() {
				if r := recover(); r != nil {
					results[i] = &vc.FuncResult{Fn: vc.FuncName(fn), Err: fmt.Sprint("engine panic: ", r)}
				}
			}()
			results[i] = vc.VerifyFunc(c.P, fn, opt, so)
		}(i, fn)
	}
	wg.Wait()
	return results
}

func (c *Ctx) addResults(results []*vc.FuncResult) {
	for _, r := range results {
		if r == nil {
			continue
		}
		c.mu.Lock()
		c.Shapes[r.Fn] = r.SSAHash
		c.mu.Unlock()
		if r.Err != "" {
			c.Notes = append(c.Notes, "not verifiable: "+r.Fn+": "+firstLine(r.Err))
			continue
		}
		c.Functions[r.Fn] = r.SSAHash
		for _, n := range r.Notes {
			c.Notes = append(c.Notes, r.Fn+": "+n)
		}
		for _, o := range r.Obls {
			it := &Item{Name: o.Name, Kind: o.Kind, Status: o.Status, Solver: o.Solver, Secs: o.Secs, Pos: o.Pos, Model: o.Model, Root: o.Fn, Owner: o.Owner}
			sc := vc.Standalone(r.Lines, o, false, "")
			it.Hash = hashStr(sc)
			if o.Status != "discharged" {
				it.Script = vc.Standalone(r.Lines, o, true, "")
			} else if len(c.Samples) < 3 && len(sc) < 6000 {
				c.Samples = append(c.Samples, map[string]any{"obligation": o.Name, "backend": o.Solver, "vc": sc})
			}
			c.AddItem(it)
		}
	}
}

func firstLine(s string) string {
	if i := strings.Index(s, "\n"); i >= 0 {
		return s[:i]
	}
	return s
}

func knownFor(c *Ctx, name string) *Finding {
	for i := range c.Known {
		if c.Known[i].Obligation == name {
			return &c.Known[i]
		}
	}
	return nil
}

// finish applies the decision rules of DESIGN 2.6, writes evidence and
// replay files, prints VIOLATION / KNOWN-FINDING lines and returns the exit code.
func finish(c *Ctx, pd *propDef) int {
	sort.SliceStable(c.Items, func(i, j int) bool { return c.Items[i].Name < c.Items[j].Name })
	if len(c.Items) == 0 {
		fmt.Println("ERROR: no obligations were generated (vacuous run): contracts missing or functions under contract not found")
		return 2
	}
	if os.Getenv("SLIPVC_LIST") != "" {
		for _, it := range c.Items {
			fmt.Printf("  %-11s %-6s %5.2fs %s\n", it.Status, it.Solver, it.Secs, it.Name)
		}
	}
	replayDir := filepath.Join(verifDir, "replays", c.Prop)
	_ = os.MkdirAll(replayDir, 0o755)
	if c.WriteBase {
		base := map[string]BaseEntry{}
		for fn, h := range c.Shapes {
			base["shape:"+fn] = BaseEntry{Status: "shape", Hash: h}
		}
		for _, it := range c.Items {
			st := it.Status
			if st == "discharged" && it.Secs > 2.5 {
				// a proof that needs seconds is the kind that is lost for no semantic reason after an unrelated
				// edit: it is not claimed (never the source of a violation), only reported as undecided
				st = "slow"
			}
			base[it.Name] = BaseEntry{Status: st, Hash: it.Hash}
		}
		_ = os.MkdirAll(filepath.Join(verifDir, "baseline"), 0o755)
		b, _ := json.MarshalIndent(base, "", " ")
		_ = os.WriteFile(filepath.Join(verifDir, "baseline", c.Prop+".json"), b, 0o644)
		c.Baseline = base
	}
	total, discharged, generated := 0, 0, 0
	var needReplay, knownItems []*Item
	var knownHits, undecided, flaky, boundedOK []string
	type viol struct {
		it      *Item
		outcome *ReplayOutcome
		reason  string
	}
	var viols []viol
	regressed := map[string]string{}
	canaries, canaryBroken := 0, []string{}
	for _, it := range c.Items {
		if strings.Contains(it.Name, "@canary") {
			canaries++
			if it.Status == "discharged" {
				canaryBroken = append(canaryBroken, it.Name)
			}
			continue
		}
		if strings.HasPrefix(it.Status, "bounded") {
			if it.Status == "bounded-ok" {
				boundedOK = append(boundedOK, it.Name)
			} else {
				needReplay = append(needReplay, it)
			}
			continue
		}
		generated++
		be, inBase := c.Baseline[it.Name]
		_ = be
		_ = inBase
		if it.Status == "discharged" {
			discharged++
			continue
		}
		if kf := knownFor(c, it.Name); kf != nil && kf.Status != "fixed" {
			knownHits = append(knownHits, it.Name)
			if c.VerifyKnown {
				knownItems = append(knownItems, it)
			}
			continue
		}
		if !inBase && isContractClause(it.Name) {
			// a new instance (new return site, new store, new call) of a contract clause all of whose
			// instances were discharged on the pinned tree
			if ok, seen := clauseAllDischarged(c.Baseline, clauseKey(it.Name)); seen && ok {
				regressed[it.Name] = "new instance of a contract clause that held at every site on the pinned tree"
				needReplay = append(needReplay, it)
				continue
			}
		}
		if !inBase && strings.Contains(it.Name, "/frame:") {
			// a new store / append / copy into storage that existed at entry, in a function that was run on the pinned
			// tree and had every frame obligation discharged (or wrote nothing at all)
			if root := it.Name[:strings.Index(it.Name, "/")]; ownFrameAllDischarged(c.Baseline, root) {
				regressed[it.Name] = "new write into storage that existed at entry, in a function all of whose frame obligations held on the pinned tree"
				needReplay = append(needReplay, it)
				continue
			}
		}
		if !inBase && strings.Contains(it.Name, "/safe:") && !strings.Contains(it.Name, "/via ") {
			// a new fault-capable instruction in a function whose own safety obligations were all discharged on the
			// pinned tree: the function was proved safe for every input and no longer is
			if root := it.Name[:strings.Index(it.Name, "/")]; ownSafetyAllDischarged(c.Baseline, root) {
				regressed[it.Name] = "new fault-capable instruction that is not proved safe, in a function all of whose own safety obligations were discharged on the pinned tree"
				needReplay = append(needReplay, it)
				continue
			}
		}
		switch {
		case inBase && be.Status == "discharged" && be.Hash == it.Hash:
			flaky = append(flaky, it.Name)
		case inBase && be.Status == "discharged":
			regressed[it.Name] = "discharged on the pinned tree, VC changed, proof gone"
			needReplay = append(needReplay, it)
		case inBase:
			// failed/unknown on the pinned tree and not a listed finding: undecided as before
			undecided = append(undecided, it.Name)
		default:
			needReplay = append(needReplay, it) // new obligation
		}
	}
	// contract obligations (not sweep obligations) that were discharged on the pinned tree but are no
	// longer generated: the contract does not apply to the code any more
	present := map[string]bool{}
	for _, it := range c.Items {
		present[it.Name] = true
	}
	var vanished []string
	for name, be := range c.Baseline {
		if be.Status != "discharged" || present[name] || !c.tierCovers(name) {
			continue
		}
		if i := strings.Index(name, "/"); i >= 0 {
			rest := name[i+1:]
			for _, k := range []string{"post@", "at-eval@", "pre@", "trace@", "arity@", "inv-init@", "inv-keep@", "variant@", "step@", "loop-exit@", "accepts@", "frame:result@", "lemma@", "byte@", "on-call@", "on-store@", "on-map-update@", "on-map-delete@", "no-store@", "operand-kept@", "exact:", "confine@", "on-slice@", "after-loop@", "no-map-delete@", "full-loop@", "must-defer@"} {
				if strings.HasPrefix(rest, k) {
					vanished = append(vanished, name)
				}
			}
		}
	}
	sort.Strings(vanished)
	// a function under contract that cannot be verified any more is one violation, not one per obligation
	unverifiable := map[string]*Item{}
	for _, it := range c.Items {
		if it.Kind == "subset" {
			unverifiable[it.Root] = it
		}
	}
	reportedRoot := map[string]bool{}
	for _, name := range vanished {
		root := name[:strings.Index(name, "/")]
		if uv := unverifiable[root]; uv != nil && strings.Contains(uv.Model, "unknown identifier") && c.Baseline["shape:"+root].Hash != "" && c.Baseline["shape:"+root].Hash == c.Shapes[root] {
			// the contract names a local variable that no longer exists (a rename): the contract text is stale,
			// which says nothing about the property; reported loudly, never as a violation
			if !reportedRoot[root] {
				reportedRoot[root] = true
				fmt.Printf("STALE-CONTRACT: property=%s %s: %s (the clauses of this function are undecided until the contract is updated)\n", c.Prop, root, firstLine(uv.Model))
				c.Notes = append(c.Notes, "stale contract: "+root+": "+firstLine(uv.Model))
			}
			undecided = append(undecided, name+" (stale contract)")
			continue
		}
		if uv := unverifiable[root]; uv != nil {
			if !reportedRoot[root] {
				reportedRoot[root] = true
				uv.Status = "failed"
				regressed[uv.Name] = "function under contract can no longer be verified (" + firstLine(uv.Model) + "); its obligations were discharged on the pinned tree"
				needReplay = append(needReplay, uv)
			}
			continue
		}
		it := &Item{Name: name, Kind: "vanished", Status: "failed", Root: root, Model: "obligation was discharged on the pinned tree and is no longer generated (function, clause or program point gone)"}
		regressed[name] = "contract obligation no longer generated"
		needReplay = append(needReplay, it)
	}
	var outcomes map[string]*ReplayOutcome
	if len(needReplay)+len(knownItems) > 0 && c.Replayer != nil {
		outcomes = c.Replayer(c, append(append([]*Item{}, needReplay...), knownItems...))
	}
	// a listed finding whose failing input class changed is a different violation
	for _, it := range knownItems {
		kf := knownFor(c, it.Name)
		oc := outcomes[it.Name]
		if kf != nil && oc != nil && oc.Ran && oc.Failed && oc.Class != "" && oc.Class != kf.InputClass {
			for i, k := range knownHits {
				if k == it.Name {
					knownHits = append(knownHits[:i], knownHits[i+1:]...)
					break
				}
			}
			viols = append(viols, viol{it, oc, "listed finding, but the failing input class changed from `" + kf.InputClass + "`"})
		}
	}
	staleRoot := map[string]bool{}
	seenNR := map[string]bool{}
	for _, it := range needReplay {
		if seenNR[it.Name] {
			continue
		}
		seenNR[it.Name] = true
		var oc *ReplayOutcome
		if outcomes != nil {
			oc = outcomes[it.Name]
		}
		sameCode := false
		if be, ok := c.Baseline["shape:"+it.Root]; ok && it.Root != "" && be.Hash == c.Shapes[it.Root] {
			sameCode = true
		}
		switch {
		case oc != nil && oc.Ran && oc.Failed:
			viols = append(viols, viol{it, oc, "counterexample replayed on the real code"})
		case regressed[it.Name] != "" && sameCode && !strings.Contains(it.Name, "/lemma@"):
			// the function (and what it calls) compiles to the same code as on the pinned tree with the names of
			// locals erased: only names, comments or layout changed, so a lost proof can only mean that the contract
			// text names something that was renamed
			if !staleRoot[it.Root] {
				staleRoot[it.Root] = true
				fmt.Printf("STALE-CONTRACT: property=%s %s: same code as on the pinned tree up to the names of locals; its contract needs the new names (obligations undecided, no violation)\n", c.Prop, it.Root)
				c.Notes = append(c.Notes, "stale contract (rename only): "+it.Root)
			}
			undecided = append(undecided, it.Name+" (stale contract)")
		case regressed[it.Name] != "":
			// no failing input: before reporting a lost proof, retry with a long timeout on every back end
			if it.Script != "" {
				r := vc.Race(strings.Replace(it.Script, "(set-option :produce-models true)\n", "", 1), 20*time.Second, vc.Solvers)
				if r.Status == "unsat" {
					it.Status, it.Solver, it.Secs = "discharged", r.Solver+" (long timeout)", r.Secs
					discharged++
					c.Notes = append(c.Notes, "slow proof (discharged only with the long timeout): "+it.Name)
					continue
				}
				it.Model += "\nretry with 20 s on all back ends: " + r.Status
			}
			viols = append(viols, viol{it, oc, regressed[it.Name]})
		case it.Status == "bounded-fail":
			viols = append(viols, viol{it, oc, "bounded check failed"})
		default:
			undecided = append(undecided, it.Name+" (new)")
		}
	}
	if c.Propose != "" && c.Replayer != nil {
		var und []*Item
		for _, it := range c.Items {
			if it.Status != "discharged" && !strings.HasPrefix(it.Status, "bounded") && knownFor(c, it.Name) == nil {
				und = append(und, it)
			}
		}
		oc := c.Replayer(c, und)
		var props []Finding
		for _, it := range und {
			if o := oc[it.Name]; o != nil && o.Ran && o.Failed {
				ic := o.Input
				if o.Class != "" {
					ic = o.Class
				}
				props = append(props, Finding{Property: c.Prop, Obligation: it.Name, InputClass: ic, What: o.Expected + "; observed: " + o.Input + " " + o.Observed, Status: "open", Example: o.Input})
			}
		}
		b, _ := json.MarshalIndent(props, "", " ")
		_ = os.WriteFile(c.Propose, b, 0o644)
		fmt.Printf("proposed %d findings out of %d undecided -> %s\n", len(props), len(und), c.Propose)
	}
	if len(canaryBroken) > 0 {
		fmt.Println("ERROR: must-fail canary obligations were discharged (engine or contract corpus broken):", canaryBroken)
		os.Exit(2)
	}
	c.Extra["canaries_must_fail"] = canaries
	code := 0
	for _, f := range c.Known {
		if f.Status == "fixed" {
			continue
		}
		hit := false
		for _, k := range knownHits {
			if k == f.Obligation {
				hit = true
			}
		}
		if hit {
			fmt.Printf("KNOWN-FINDING: property=%s %s: %s\n", c.Prop, f.Obligation, printable(f.What))
		}
	}
	for _, v := range viols {
		path := filepath.Join(replayDir, sanitizeName(v.it.Name)+".json")
		rep := map[string]any{
			"property": c.Prop, "obligation": v.it.Name, "function": v.it.Root, "kind": v.it.Kind, "position": v.it.Pos,
			"reason": v.reason, "solver": v.it.Solver, "solver_output": v.it.Model, "real_code": v.outcome, "vc": v.it.Script,
		}
		b, _ := json.MarshalIndent(rep, "", " ")
		_ = os.WriteFile(path, b, 0o644)
		if v.outcome != nil && v.outcome.Ran && v.outcome.Failed {
			fmt.Printf("VIOLATION property=%s replay=%s\n", c.Prop, path)
		} else {
			fmt.Printf("VIOLATION property=%s replay=%s no-failing-input-found\n", c.Prop, path)
		}
		code = 1
	}
	// obligations claimed by this run = discharged now + proofs that were lost (reported as violations);
	// flaky / undecided / known findings are reported separately and never counted as proved
	total = discharged
	for _, v := range viols {
		if regressed[v.it.Name] != "" {
			total++
		}
	}
	// evidence
	backends := map[string]int{}
	solverSecs := 0.0
	for _, it := range c.Items {
		if it.Status == "discharged" {
			backends[it.Solver]++
		}
		solverSecs += it.Secs
	}
	var fnames []string
	for f := range c.Functions {
		fnames = append(fnames, f)
	}
	sort.Strings(fnames)
	if len(c.Samples) == 0 {
		for _, it := range c.Items {
			c.Samples = append(c.Samples, map[string]any{"obligation": it.Name, "status": it.Status, "backend": it.Solver})
			if len(c.Samples) >= 3 {
				break
			}
		}
	}
	trusted := append([]string{}, c.Trusted...)
	trusted = append(trusted, "go/packages + go/ssa (x/tools v0.50.0) and the slipvc SSA->SMT translation", "z3 5.1.0 / z3 4.8.12 / cvc5 1.0 (an unsat from any one is believed)", "partial correctness only (termination not proved)", "machine integers = ranged SMT Int with explicit two's-complement wrap", "slice offset + capacity <= 2^48 (the largest allocation of the Go runtime on 64-bit platforms), string length <= 2^40")
	cov := map[string]any{
		"obligations": total, "discharged": discharged, "obligations_generated": generated,
		"checker_cmd":   fmt.Sprintf("bin/slipvc check -prop %s -tier %s", c.Prop, c.Tier),
		"trusted_base":  trusted,
		"functions_under_contract": len(fnames),
		"functions":     sampleStrings(fnames, 400),
		"backends":      backends,
		"solver_secs":   solverSecs,
		"known_findings": knownHits,
		"undecided":     sampleStrings(undecided, 300),
		"undecided_count": len(undecided),
		"flaky":         flaky,
		"bounded_standins": c.Bounded,
		"bounded_ok":    len(boundedOK),
		"samples":       c.Samples,
		"not_verifiable_and_notes": sampleStrings(c.Notes, 200),
		"violations_reported": len(viols),
		"evaluations": total, "distinct_nontrivial": discharged,
		"rule": "one evaluation = one generated proof obligation; distinct_nontrivial = obligations discharged (unsat) by a solver",
	}
	for k, v := range c.Extra {
		cov[k] = v
	}
	ev := map[string]any{
		"property_id": c.Prop, "tier": c.Tier, "seed": c.Seed, "level": pd.level,
		"coverage": cov, "assumptions": c.Assume, "wall_s": time.Since(c.T0).Seconds(), "violations": len(viols),
	}
	_ = os.MkdirAll(filepath.Join(verifDir, "evidence"), 0o755)
	b, _ := json.MarshalIndent(ev, "", " ")
	_ = os.WriteFile(filepath.Join(verifDir, "evidence", c.Prop+".json"), b, 0o644)
	fmt.Printf("%s %s: generated=%d claimed=%d discharged=%d known-findings=%d undecided=%d flaky=%d violations=%d wall=%.1fs\n",
		c.Prop, c.Tier, generated, total, discharged, len(knownHits), len(undecided), len(flaky), len(viols), time.Since(c.T0).Seconds())
	return code
}

func sampleStrings(s []string, n int) []string {
	if len(s) <= n {
		return s
	}
	return append(append([]string{}, s[:n]...), fmt.Sprintf("... and %d more", len(s)-n))
}

func sanitizeName(s string) string {
	var sb strings.Builder
	for _, r := range s {
		switch {
		case r >= 'a' && r <= 'z', r >= 'A' && r <= 'Z', r >= '0' && r <= '9', r == '_', r == '-', r == '.':
			sb.WriteRune(r)
		default:
			sb.WriteByte('_')
		}
	}
	out := sb.String()
	if len(out) > 150 {
		out = out[:150] + hashStr(s)
	}
	return out
}

// printable escapes control and non-ASCII bytes so that check output stays text.
func printable(s string) string {
	var sb strings.Builder
	for i := 0; i < len(s); i++ {
		b := s[i]
		if b < 0x20 || b >= 0x7f {
			fmt.Fprintf(&sb, "\\x%02x", b)
		} else {
			sb.WriteByte(b)
		}
	}
	return sb.String()
}

var clauseSuffixRe = regexp.MustCompile(`(-ret\d+)?(#\d+|~\d+)*$`)

func clauseKey(name string) string {
	// the package-wide operands-kept contract is one clause per function: every mutating call is an instance
	if strings.Contains(name, "/operand-kept@") {
		return name[:strings.Index(name, "/")] + "/operand-kept@"
	}
	if i := strings.Index(name, "/accepts@"); i >= 0 {
		// accepts@<label>:<raise site>[#n]: every raise site is an instance of the clause <label>
		if j := strings.Index(name[i+9:], ":"); j >= 0 {
			return name[:i+9+j]
		}
	}
	return clauseSuffixRe.ReplaceAllString(name, "")
}

func isContractClause(name string) bool {
	i := strings.Index(name, "/")
	if i < 0 {
		return false
	}
	rest := name[i+1:]
	for _, k := range []string{"post@", "at-eval@", "pre@", "trace@", "on-call@", "on-store@", "on-map-update@", "on-map-delete@", "no-store@", "must-defer@", "full-loop@", "operand-kept@", "confine@", "on-slice@", "after-loop@", "no-map-delete@", "accepts@", "loop-exit@"} {
		if strings.HasPrefix(rest, k) {
			return true
		}
	}
	return strings.Contains(rest, "/operand-kept@")
}

func clauseAllDischarged(base map[string]BaseEntry, key string) (all bool, seen bool) {
	all = true
	for n, be := range base {
		if clauseKey(n) == key {
			seen = true
			if be.Status != "discharged" {
				all = false
			}
		}
	}
	return
}

// ownFrameAllDischarged: the function was run on the pinned tree (its shape is in the baseline) and none of its
// frame obligations was left undischarged there.
func ownFrameAllDischarged(base map[string]BaseEntry, root string) bool {
	if _, ok := base["shape:"+root]; !ok {
		return false
	}
	for n, be := range base {
		if strings.HasPrefix(n, root+"/frame:") && be.Status != "discharged" {
			return false
		}
	}
	return true
}

// ownSafetyAllDischarged: the baseline holds safety obligations of the function's own instructions (not of inlined
// helpers) and every one of them was discharged.
func ownSafetyAllDischarged(base map[string]BaseEntry, root string) bool {
	seen := false
	for n, be := range base {
		if !strings.HasPrefix(n, root+"/safe:") {
			continue
		}
		seen = true
		if be.Status != "discharged" {
			return false
		}
	}
	return seen
}
