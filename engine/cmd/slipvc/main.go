package main

import (
	"flag"
	"fmt"
	"os"
	"regexp"
	"runtime/debug"
	"sort"
	"strings"
	"sync"
	"time"

	"golang.org/x/tools/go/ssa"

	"slipvc/vc"
)

func main() {
	if len(os.Args) < 2 {
		fmt.Println("usage: slipvc <cmd> ...")
		os.Exit(2)
	}
	switch os.Args[1] {
	case "sweep":
		sweepCmd(os.Args[2:])
	case "check":
		checkCmd(os.Args[2:])
	default:
		fmt.Println("unknown command", os.Args[1])
		os.Exit(2)
	}
}

func pkgPatterns(list string) []string {
	var out []string
	for _, p := range strings.Split(list, ",") {
		if p == "" {
			continue
		}
		if p == "slip" {
			out = append(out, vc.ModPath)
		} else {
			out = append(out, vc.ModPath+"/pkg/"+p)
		}
	}
	return out
}

// sweepCmd: ad-hoc driver used during development.
func sweepCmd(args []string) {
	fs := flag.NewFlagSet("sweep", flag.ExitOnError)
	pkgs := fs.String("pkgs", "slip,cl", "packages")
	match := fs.String("match", `\.Call$`, "regexp on function names")
	verbose := fs.Bool("v", false, "print every obligation")
	dump := fs.String("dump", "", "dump scripts of failed obligations to dir")
	timeout := fs.Int("t", 2000, "per-goal timeout ms")
	workers := fs.Int("j", 16, "workers")
	inl := fs.Int("inline", 3, "inline depth")
	fs.Parse(args)
	t0 := time.Now()
	p, err := vc.Load("/repo", pkgPatterns(*pkgs)...)
	if err != nil {
		fmt.Println("load:", err)
		os.Exit(2)
	}
	fmt.Printf("loaded in %.1fs, %d functions\n", time.Since(t0).Seconds(), len(p.Funcs))
	re := regexp.MustCompile(*match)
	var names []string
	for n := range p.Funcs {
		if re.MatchString(n) {
			names = append(names, n)
		}
	}
	sort.Strings(names)
	opt := vc.Options{Safety: true, InlineDepth: *inl, InlineSize: 120}
	so := &vc.SolveOpts{TimeoutMs: *timeout, RaceTimeout: 10 * time.Second, Models: true}
	results := make([]*vc.FuncResult, len(names))
	var wg sync.WaitGroup
	sem := make(chan struct{}, *workers)
	for i, n := range names {
		wg.Add(1)
		sem <- struct{}{}
		go func(i int, fn *ssa.Function) {
			defer wg.Done()
			defer func() { <-sem }()
			defer func() {
				if r := recover(); r != nil {
					results[i] = &vc.FuncResult{Fn: vc.FuncName(fn), Err: fmt.Sprint("engine panic: ", r, "\n", string(debug.Stack()))}
				}
			}()
			results[i] = vc.VerifyFunc(p, fn, opt, so)
		}(i, p.Funcs[n])
	}
	wg.Wait()
	tot, ok, failed, unk, errs := 0, 0, 0, 0, 0
	for _, r := range results {
		if r.Err != "" {
			errs++
			fmt.Printf("ERR %s: %s\n", r.Fn, r.Err)
			continue
		}
		for _, o := range r.Obls {
			tot++
			switch o.Status {
			case "discharged":
				ok++
			case "failed":
				failed++
			default:
				unk++
			}
			if *verbose || o.Status != "discharged" {
				fmt.Printf("%-10s %s  [%s] %s\n", o.Status, o.Name, o.Pos, strings.ReplaceAll(o.Model, "\n", " "))
				if *dump != "" && o.Status != "discharged" {
					vc.DumpScript(*dump, o.Name, vc.Standalone(r.Lines, o, true, ""))
				}
			}
		}
	}
	fmt.Printf("functions=%d errors=%d obligations=%d discharged=%d failed=%d unknown=%d wall=%.1fs\n",
		len(results), errs, tot, ok, failed, unk, time.Since(t0).Seconds())
}

