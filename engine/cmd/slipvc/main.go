package main

import (
	"fmt"
	"golang.org/x/tools/go/packages"
	"golang.org/x/tools/go/ssa"
	"golang.org/x/tools/go/ssa/ssautil"
)

func main() {
	cfg := &packages.Config{Mode: packages.LoadAllSyntax, Dir: "/repo", BuildFlags: []string{"-tags", "verif"}}
	pkgs, err := packages.Load(cfg, "github.com/ohler55/slip", "github.com/ohler55/slip/pkg/cl")
	if err != nil {
		panic(err)
	}
	prog, spkgs := ssautil.AllPackages(pkgs, ssa.InstantiateGenerics)
	prog.Build()
	fmt.Println(len(spkgs))
}
