package main

import (
	"encoding/json"
	"flag"
	"fmt"
	"os"
	"regexp"
	"runtime/debug"
	"sort"
	"strings"
	"sync"
	"time"

	"golang.org/x/tools/go/ssa"

	"slipvc/vc"
)

func main() {
	if len(os.Args) < 2 {
		fmt.Println("usage: slipvc <cmd> ...")
		os.Exit(2)
	}
	switch os.Args[1] {
	case "sweep":
		sweepCmd(os.Args[2:])
	case "check":
		checkCmd(os.Args[2:])
	default:
		if f, ok := extraCmds[os.Args[1]]; ok {
			f(os.Args[2:])
			return
		}
		fmt.Println("unknown command", os.Args[1])
		os.Exit(2)
	}
}

func pkgPatterns(list string) []string {
	var out []string
	for _, p := range strings.Split(list, ",") {
		if p == "" {
			continue
		}
		if p == "slip" {
			out = append(out, vc.ModPath)
		} else {
			out = append(out, vc.ModPath+"/pkg/"+p)
		}
	}
	return out
}

// sweepCmd: ad-hoc driver used during development.
func sweepCmd(args []string) {
	fs := flag.NewFlagSet("sweep", flag.ExitOnError)
	pkgs := fs.String("pkgs", "slip,cl", "packages")
	match := fs.String("match", `\.Call$`, "regexp on function names")
	verbose := fs.Bool("v", false, "print every obligation")
	dump := fs.String("dump", "", "dump scripts of failed obligations to dir")
	timeout := fs.Int("t", 2000, "per-goal timeout ms")
	workers := fs.Int("j", 16, "workers")
	inl := fs.Int("inline", 3, "inline depth")
	fs.Parse(args)
	t0 := time.Now()
	p, err := vc.Load(repoDir, pkgPatterns(*pkgs)...)
	if err != nil {
		fmt.Println("load:", err)
		os.Exit(2)
	}
	fmt.Printf("loaded in %.1fs, %d functions\n", time.Since(t0).Seconds(), len(p.Funcs))
	re := regexp.MustCompile(*match)
	var names []string
	for n := range p.Funcs {
		if re.MatchString(n) {
			names = append(names, n)
		}
	}
	sort.Strings(names)
	opt := vc.Options{Safety: true, InlineDepth: *inl, InlineSize: 120}
	so := &vc.SolveOpts{TimeoutMs: *timeout, RaceTimeout: 10 * time.Second, Models: true}
	results := make([]*vc.FuncResult, len(names))
	var wg sync.WaitGroup
	sem := make(chan struct{}, *workers)
	for i, n := range names {
		wg.Add(1)
		sem <- struct{}{}
		go func(i int, fn *ssa.Function) {
			defer wg.Done()
			defer func() { <-sem }()
			defer func() {
				if r := recover(); r != nil {
					results[i] = &vc.FuncResult{Fn: vc.FuncName(fn), Err: fmt.Sprint("engine panic: ", r, "\n", string(debug.Stack()))}
				}
			}()
			results[i] = vc.VerifyFunc(p, fn, opt, so)
		}(i, p.Funcs[n])
	}
	wg.Wait()
	tot, ok, failed, unk, errs := 0, 0, 0, 0, 0
	for _, r := range results {
		if r.Err != "" {
			errs++
			fmt.Printf("ERR %s: %s\n", r.Fn, r.Err)
			continue
		}
		for _, o := range r.Obls {
			tot++
			switch o.Status {
			case "discharged":
				ok++
			case "failed":
				failed++
			default:
				unk++
			}
			if *verbose || o.Status != "discharged" {
				fmt.Printf("%-10s %s  [%s] %s\n", o.Status, o.Name, o.Pos, strings.ReplaceAll(o.Model, "\n", " "))
				if *dump != "" && o.Status != "discharged" {
					vc.DumpScript(*dump, o.Name, vc.Standalone(r.Lines, o, true, ""))
				}
			}
		}
	}
	fmt.Printf("functions=%d errors=%d obligations=%d discharged=%d failed=%d unknown=%d wall=%.1fs\n",
		len(results), errs, tot, ok, failed, unk, time.Since(t0).Seconds())
}


func init() { extraCmds["contracts"] = contractsCmd }

var extraCmds = map[string]func([]string){}

// contractsCmd: development driver — verify the functions under contract
// whose name matches.
func contractsCmd(args []string) {
	fs := flag.NewFlagSet("contracts", flag.ExitOnError)
	match := fs.String("match", ".", "regexp on function names")
	dump := fs.String("dump", "", "dump failed scripts")
	ao := fs.Bool("ao", false, "development: verify append-shaped functions that match under the append-only contract")
	fs.Parse(args)
	p, err := vc.Load(repoDir, vc.ModPath, vc.ModPath+"/pkg/...", vc.ModPath+"/pp")
	if err != nil {
		fmt.Println(err)
		os.Exit(2)
	}
	cs, files, err := vc.LoadContracts(repoDir)
	if err != nil {
		fmt.Println("contracts:", err)
		os.Exit(2)
	}
	cs.Attach(p)
	fmt.Println("contract files:", files)
	if os.Getenv("SLIPVC_DEBUG") != "" {
		fmt.Println("pure methods:", cs.PureMethods, "stable:", cs.StableStructs)
	}
	re := regexp.MustCompile(*match)
	order := append([]string{}, cs.Order...)
	if *ao {
		// development: synthetic append-only contracts for the functions of the shape that match
		var extra []string
		for n, fn := range p.Funcs {
			if re.MatchString(n) && vc.AppendShape(fn) >= 0 && len(fn.Blocks) > 0 && fn.Parent() == nil {
				if ct := cs.ByFunc[n]; ct != nil {
					ct.Options["append-only"] = true
				} else {
					cs.ByFunc[n] = &vc.Contract{Func: n, Loops: map[string][]*vc.Clause{}, Options: map[string]bool{"append-only": true, "no-lambda": true}}
					extra = append(extra, n)
				}
			}
		}
		sort.Strings(extra)
		order = append(order, extra...)
	}
	for _, name := range order {
		if !re.MatchString(name) {
			continue
		}
		fn := p.Funcs[name]
		if fn == nil {
			fmt.Println("NO SUCH FUNCTION", name)
			continue
		}
		opt := vc.Options{Safety: false, InlineDepth: 2, InlineSize: 80, Contracts: cs}
		so := &vc.SolveOpts{TimeoutMs: 5000, RaceTimeout: 20 * time.Second, Models: true}
		r := vc.VerifyFunc(p, fn, opt, so)
		if r.Err != "" {
			fmt.Println("ERR", name, r.Err)
			continue
		}
		for _, o := range r.Obls {
			fmt.Printf("%-10s %-8s %6.2fs %s %s\n", o.Status, o.Solver, o.Secs, o.Name, strings.ReplaceAll(o.Model, "\n", " "))
			if *dump != "" && o.Status != "discharged" {
				vc.DumpScript(*dump, o.Name, vc.Standalone(r.Lines, o, true, ""))
			}
		}
		fmt.Println("  dropped:", r.Dropped, "kept:", r.Kept, "notes:", r.Notes)
	}
}

func init() {
	extraCmds["readcut-baseline"] = func(args []string) {
		fails, err := runReadCut()
		if err != nil {
			fmt.Println(err)
			os.Exit(2)
		}
		b, _ := json.MarshalIndent(fails, "", " ")
		_ = os.WriteFile(verifDir+"/baseline/C02.readcut.json", b, 0o644)
		fmt.Println("recorded", len(fails), "inputs that fail on the pinned tree")
	}
}

// tracesweep: development driver — which functions that evaluate Lisp forms satisfy the exit-forwarding
// discipline without a hand-written contract?
func init() {
	extraCmds["tracesweep"] = func(args []string) {
		fs := flag.NewFlagSet("tracesweep", flag.ExitOnError)
		pkgs := fs.String("pkgs", "cl", "comma separated short package names")
		match := fs.String("match", ".", "regexp on function names")
		fs.Parse(args)
		p, err := vc.Load(repoDir, vc.ModPath, vc.ModPath+"/pkg/...", vc.ModPath+"/pp")
		if err != nil {
			fmt.Println(err)
			os.Exit(2)
		}
		cs, _, err := vc.LoadContracts(repoDir)
		if err != nil {
			fmt.Println("contracts:", err)
			os.Exit(2)
		}
		cs.Attach(p)
		want := map[string]bool{}
		for _, k := range strings.Split(*pkgs, ",") {
			want[k] = true
		}
		re := regexp.MustCompile(*match)
		var names []string
		for n := range p.Funcs {
			names = append(names, n)
		}
		sort.Strings(names)
		for _, n := range names {
			fn := p.Funcs[n]
			if !want[pkgShort(fn)] || !re.MatchString(n) || len(fn.Blocks) == 0 || fn.Parent() != nil || cs.ByFunc[n] != nil {
				continue
			}
			if !vc.EvaluatesForms(fn) {
				continue
			}
			cs.ByFunc[n] = &vc.Contract{Func: n, Loops: map[string][]*vc.Clause{}, Options: map[string]bool{"forward-exits": true}}
			opt := vc.Options{Safety: false, InlineDepth: 2, InlineSize: 80, Contracts: cs}
			so := &vc.SolveOpts{TimeoutMs: 3000, RaceTimeout: 6 * time.Second, Models: false}
			r := vc.VerifyFunc(p, fn, opt, so)
			delete(cs.ByFunc, n)
			if r.Err != "" {
				fmt.Println("ERR", n, firstLine(r.Err))
				continue
			}
			bad := 0
			for _, o := range r.Obls {
				if o.Status != "discharged" {
					bad++
					fmt.Printf("  %-10s %s\n", o.Status, o.Name)
				}
			}
			fmt.Printf("%s: %d obligations, %d not discharged\n", n, len(r.Obls), bad)
		}
	}
}
