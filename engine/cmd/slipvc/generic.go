package main

import (
	"strings"
	"bytes"
	"encoding/json"
	"os"
	"os/exec"
	"sort"

	"golang.org/x/tools/go/ssa"

	"slipvc/vc"
)

// properties decided only by the contracts tagged with them
func init() {
	for _, id := range []string{"C08", "C10", "C11", "C12", "C13", "C14", "C15", "C16", "C17", "C18", "C19"} {
		id := id
		register(&propDef{id: id, run: runGenericContracts, level: "proof", technique: "contracts (pre/postconditions, loop invariants, on-store / on-call assertions) on the functions the property depends on; WP over go/ssa; z3"})
	}
}

func runGenericContracts(c *Ctx) {
	cs := loadContracts(c)
	opt := vc.Options{Safety: false, InlineDepth: 2, InlineSize: 100}
	c.Replayer = replaySpecCases
	runContracts(c, cs, opt, defaultSolve())
	if c.Prop == "C17" {
		sweepLocks(c, cs, opt)
		sweepSharedPrinter(c, cs, opt)
		c.Assume = append(c.Assume,
			"no schedule is explored: the clauses are sequential obligations (lock balance, deferred unlock, no write through the pointer to the process-wide printer) that the concurrency statement reduces to",
			"shared-printer-kept: a write is recognised when the stored-to address, or an argument of a module function whose static modification set contains a Printer field, derives from a call of slip.DefaultPrinter() through field addresses, phis, type changes or a cell a closure captured; other flows of that pointer (into a struct field, through an interface) are not followed")
	}
	if c.Prop == "C16" {
		c.Assume = append(c.Assume,
			"floating point is not interpreted: comparisons are uninterpreted predicates of the two values, float32 -> float64 is the identity on the abstract value, float64 -> float32 an uninterpreted function of it (so a comparison after narrowing is not provably the comparison of the values)")
	}
	if c.Prop == "C18" {
		c.Assume = append(c.Assume,
			"the package-level parse functions of the ojg dependency (sen.MustParse, sen.MustParseReader, oj.MustParse ...) are assumed to build a new document on every call")
	}
}

// sweepSharedPrinter: the package-wide contract `every-function <pkg> shared-printer-kept`: a function that asks
// for the process-wide printer (slip.DefaultPrinter()) works on a copy of it - it never stores through the pointer
// and never hands the pointer to a function that stores to Printer fields (Printer.ScopedUpdate): the print settings
// a routine binds with let stay its own, and nothing a routine prints changes what another one prints.
func sweepSharedPrinter(c *Ctx, cs *vc.Contracts, opt vc.Options) {
	pkgs := map[string]bool{}
	for _, p := range cs.Sweeps["shared-printer-kept"] {
		pkgs[p] = true
	}
	if len(pkgs) == 0 {
		return
	}
	var names []string
	for n := range c.P.Funcs {
		names = append(names, n)
	}
	sort.Strings(names)
	post, err := vc.ParseClauseText("shared-printer-kept: $nstore_sharedprinter == 0")
	if err != nil {
		panic(err)
	}
	var roots []*ssa.Function
	for _, n := range names {
		fn := c.P.Funcs[n]
		if !pkgs[pkgShort(fn)] || len(fn.Blocks) == 0 || fn.Parent() != nil || !callsDefaultPrinter(fn) {
			continue
		}
		if ct := cs.ByFunc[n]; ct != nil {
			continue // a function with a contract of its own states what it does with the printer there
		}
		cs.ByFunc[n] = &vc.Contract{Func: n, Loops: map[string][]*vc.Clause{}, Options: map[string]bool{}, Props: []string{"C17"}, CountStores: []string{"sharedprinter"}, Ensures: []*vc.Clause{post}}
		roots = append(roots, fn)
	}
	o := opt
	o.Contracts = cs
	res := c.runUnits(roots, o, defaultSolve(), 16)
	c.addResults(res)
	c.Extra["shared_printer_sweep_functions"] = len(roots)
}

func callsDefaultPrinter(fn *ssa.Function) bool {
	for _, b := range fn.Blocks {
		for _, in := range b.Instrs {
			if cl, ok := in.(*ssa.Call); ok {
				if f := cl.Call.StaticCallee(); f != nil && f.Name() == "DefaultPrinter" && f.Pkg != nil && f.Pkg.Pkg != nil && f.Pkg.Pkg.Path() == vc.ModPath {
					return true
				}
			}
		}
	}
	for _, an := range fn.AnonFuncs {
		if callsDefaultPrinter(an) {
			return true
		}
	}
	return false
}

// sweepLocks: the package-wide contract `every-function <pkg> lock-balance`: a function that takes a sync
// lock itself has released it again on every normal return path (directly or through a deferred call).
func sweepLocks(c *Ctx, cs *vc.Contracts, opt vc.Options) {
	pkgs := map[string]bool{}
	for _, p := range cs.Sweeps["lock-balance"] {
		pkgs[p] = true
	}
	var names []string
	for n := range c.P.Funcs {
		names = append(names, n)
	}
	sort.Strings(names)
	var roots []*ssa.Function
	for _, n := range names {
		fn := c.P.Funcs[n]
		if !pkgs[pkgShort(fn)] || len(fn.Blocks) == 0 || fn.Parent() != nil || !vc.TakesSyncLock(fn) {
			continue
		}
		if ct := cs.ByFunc[n]; ct != nil {
			// a function with a contract of its own (for another property) is held to the lock balance as well;
			// one that is tagged C17 has been verified by runContracts already
			tagged := false
			for _, p := range ct.Props {
				if p == "C17" {
					tagged = true
				}
			}
			if tagged || ct.Options["trace"] || ct.Options["forward-exits"] || ct.Options["eval-once"] {
				continue
			}
			ct.Options["lock-balance"] = true
			roots = append(roots, fn)
			continue
		}
		cs.ByFunc[n] = &vc.Contract{Func: n, Loops: map[string][]*vc.Clause{}, Options: map[string]bool{"lock-balance": true}, Props: []string{"C17"}}
		roots = append(roots, fn)
	}
	o := opt
	o.Contracts = cs
	res := c.runUnits(roots, o, defaultSolve(), 16)
	c.addResults(res)
	c.Extra["lock_balance_sweep_functions"] = len(roots)
}

type specResult struct {
	Failed   bool   `json:"failed"`
	Input    string `json:"input"`
	Observed string `json:"observed"`
	Expected string `json:"expected"`
	Ran      int    `json:"ran"`
}

// replaySpecCases: refuted (sat) obligations of functions without a dedicated harness are replayed with the
// inputs listed for the function in harness/speccheck/cases.json, each with the result the language requires.
func replaySpecCases(c *Ctx, items []*Item) map[string]*ReplayOutcome {
	res := map[string]*ReplayOutcome{}
	rootSet := map[string]bool{}
	for _, it := range items {
		if it.Root != "" && it.Status != "unknown" && it.Status != "timeout" {
			rootSet[it.Root] = true
		}
	}
	if len(rootSet) == 0 {
		return res
	}
	var roots []string
	for r := range rootSet {
		roots = append(roots, r)
	}
	// clause-bound case lists of these roots
	var caseKeys map[string]json.RawMessage
	if b, err := os.ReadFile(verifDir + "/harness/speccheck/cases.json"); err == nil {
		_ = json.Unmarshal(b, &caseKeys)
	}
	for key := range caseKeys {
		if i := strings.Index(key, "#"); i > 0 && rootSet[key[:i]] {
			roots = append(roots, key)
		}
	}
	sort.Strings(roots)
	bin, err := buildHarness("speccheck")
	if err != nil {
		return res
	}
	scratch, _ := os.MkdirTemp("", "slipvc-spec-")
	defer os.RemoveAll(scratch)
	in, _ := json.Marshal(map[string]any{"roots": roots, "cases": verifDir + "/harness/speccheck/cases.json"})
	cmd := exec.Command(bin)
	cmd.Dir = scratch
	cmd.Stdin = bytes.NewReader(in)
	out, err := cmd.Output()
	if err != nil {
		c.Notes = append(c.Notes, "speccheck harness: "+err.Error())
		return res
	}
	var parsed struct {
		Results map[string]*specResult `json:"results"`
	}
	if json.Unmarshal(out, &parsed) != nil {
		return res
	}
	// a case list may be bound to one clause of the function: key "root#label" answers only for
	// obligations whose name contains the label
	for _, it := range items {
		r := parsed.Results[it.Root]
		for key, rr := range parsed.Results {
			if i := strings.Index(key, "#"); i > 0 && key[:i] == it.Root && strings.Contains(it.Name, key[i+1:]) {
				r = rr
			}
		}
		if r == nil || r.Ran == 0 || it.Status == "unknown" || it.Status == "timeout" {
			continue
		}
		oc := &ReplayOutcome{Harness: "speccheck", Ran: true}
		if r.Failed {
			oc.Failed, oc.Input, oc.Observed, oc.Expected = true, r.Input, r.Observed, r.Expected
		}
		res[it.Name] = oc
	}
	return res
}

// withSpecCases: a property's own replay harness first; obligations it has no answer for are replayed with the
// inputs listed for their function in harness/speccheck/cases.json.
func withSpecCases(primary func(*Ctx, []*Item) map[string]*ReplayOutcome) func(*Ctx, []*Item) map[string]*ReplayOutcome {
	return func(c *Ctx, items []*Item) map[string]*ReplayOutcome {
		res := map[string]*ReplayOutcome{}
		if primary != nil {
			for k, v := range primary(c, items) {
				res[k] = v
			}
		}
		var rest []*Item
		for _, it := range items {
			if oc := res[it.Name]; oc == nil || !oc.Ran {
				rest = append(rest, it)
			}
		}
		if len(rest) > 0 {
			for k, v := range replaySpecCases(c, rest) {
				res[k] = v
			}
		}
		return res
	}
}
