package main

import (
	"sort"

	"golang.org/x/tools/go/ssa"

	"slipvc/vc"
)

// properties decided only by the contracts tagged with them
func init() {
	for _, id := range []string{"C08", "C10", "C11", "C12", "C13", "C14", "C15", "C16", "C17", "C18", "C19"} {
		id := id
		register(&propDef{id: id, run: runGenericContracts, level: "proof", technique: "contracts (pre/postconditions, loop invariants, on-store / on-call assertions) on the functions the property depends on; WP over go/ssa; z3"})
	}
}

func runGenericContracts(c *Ctx) {
	cs := loadContracts(c)
	opt := vc.Options{Safety: false, InlineDepth: 2, InlineSize: 100}
	runContracts(c, cs, opt, defaultSolve())
	if c.Prop == "C17" {
		sweepLocks(c, cs, opt)
	}
}

// sweepLocks: the package-wide contract `every-function <pkg> lock-balance`: a function that takes a sync
// lock itself has released it again on every normal return path (directly or through a deferred call).
func sweepLocks(c *Ctx, cs *vc.Contracts, opt vc.Options) {
	pkgs := map[string]bool{}
	for _, p := range cs.Sweeps["lock-balance"] {
		pkgs[p] = true
	}
	var names []string
	for n := range c.P.Funcs {
		names = append(names, n)
	}
	sort.Strings(names)
	var roots []*ssa.Function
	for _, n := range names {
		fn := c.P.Funcs[n]
		if !pkgs[pkgShort(fn)] || len(fn.Blocks) == 0 || fn.Parent() != nil || !vc.TakesSyncLock(fn) || cs.ByFunc[n] != nil {
			continue
		}
		roots = append(roots, fn)
	}
	for _, fn := range roots {
		n := vc.FuncName(fn)
		cs.ByFunc[n] = &vc.Contract{Func: n, Loops: map[string][]*vc.Clause{}, Options: map[string]bool{"lock-balance": true}, Props: []string{"C17"}}
	}
	o := opt
	o.Contracts = cs
	res := c.runUnits(roots, o, defaultSolve(), 16)
	c.addResults(res)
	c.Extra["lock_balance_sweep_functions"] = len(roots)
}
