package main

import "slipvc/vc"

// properties decided only by the contracts tagged with them
func init() {
	for _, id := range []string{"C08", "C10", "C11", "C12", "C13", "C14", "C15", "C16", "C17", "C18", "C19"} {
		id := id
		register(&propDef{id: id, run: runGenericContracts, level: "proof", technique: "contracts (pre/postconditions, loop invariants, on-store / on-call assertions) on the functions the property depends on; WP over go/ssa; z3"})
	}
}

func runGenericContracts(c *Ctx) {
	cs := loadContracts(c)
	opt := vc.Options{Safety: false, InlineDepth: 2, InlineSize: 100}
	runContracts(c, cs, opt, defaultSolve())
}
