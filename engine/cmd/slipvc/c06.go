package main

import (
	"time"
	"bytes"
	"encoding/json"
	"os"
	"os/exec"
	"regexp"
	"sort"
	"strings"

	"golang.org/x/tools/go/ssa"

	"slipvc/vc"
)

func init() {
	register(&propDef{id: "C06", run: runC06, level: "proof", technique: "frame/ownership contracts on the list built-ins (no store into arrays that exist at entry, append-in-place modelled exactly, result fresh or true tail) + sequence contracts; WP over go/ssa; z3"})
}

// non-destructive list functions: files whose functions must not write into
// pre-existing list storage and must return fresh lists (or true tails).
var c06Fresh = []string{"pkg/cl/cons.go", "pkg/cl/butlast.go", "pkg/cl/subseq.go", "pkg/cl/copy-list.go", "pkg/cl/reverse.go",
	"pkg/cl/remove.go", "pkg/cl/remove-if.go", "pkg/cl/remove-if-not.go", "pkg/cl/remove-duplicates.go", "pkg/cl/list.go", "pkg/cl/mapcar.go", "pkg/cl/push.go",
	"pkg/cl/substitute.go", "pkg/cl/copy-seq.go", "pkg/cl/copy-tree.go", "pkg/cl/union.go", "pkg/cl/intersection.go", "pkg/cl/set-difference.go", "pkg/cl/acons.go", "pkg/cl/pairlis.go", "pkg/cl/revappend.go", "pkg/cl/ldiff.go"}
var c06Tail = []string{"pkg/cl/adjoin.go", "pkg/cl/append.go", "pkg/cl/listx.go", "pkg/cl/cdr.go", "pkg/cl/rest.go", "pkg/cl/nthcdr.go", "pkg/cl/last.go", "pkg/cl/member.go", "pkg/cl/member-if.go", "pkg/cl/pop.go", "pkg/cl/cddr.go", "pkg/cl/cdar.go"}

// shared helpers of destructive and non-destructive functions: only the
// "no write into the argument" obligation applies
var c06NoWrite = []string{"pkg/cl/delete.go"}

func funcsInFiles(c *Ctx, files []string) []*ssa.Function {
	want := map[string]bool{}
	for _, f := range files {
		want[f] = true
	}
	var out []*ssa.Function
	var names []string
	for n := range c.P.Funcs {
		names = append(names, n)
	}
	sort.Strings(names)
	for _, n := range names {
		fn := c.P.Funcs[n]
		if !fn.Pos().IsValid() || fn.Parent() != nil || len(fn.Blocks) == 0 || strings.HasPrefix(fn.Name(), "init") {
			continue
		}
		file := strings.TrimPrefix(c.P.SSA.Fset.Position(fn.Pos()).Filename, repoDir+"/")
		if want[file] && fn.Name() != "Place" {
			out = append(out, fn)
		}
	}
	return out
}

func runC06(c *Ctx) {
	cs := loadContracts(c)
	c.Replayer = replayListAlias
	so := defaultSolve()
	base := vc.Options{Safety: false, InlineDepth: 2, InlineSize: 120, NoArgWrite: true, Contracts: cs}
	o1 := base
	o1.ResultIndependent = "fresh"
	c.addResults(c.runUnits(funcsInFiles(c, c06Fresh), o1, so, 16))
	o2 := base
	o2.ResultIndependent = "fresh-or-tail"
	c.addResults(c.runUnits(funcsInFiles(c, c06Tail), o2, so, 16))
	o3 := base
	// Delete.inList is shared with remove (Remove embeds Delete): it must not write into its argument when called for remove;
	// the destructive entry point is allowed to, so only the helper is under the frame contract here.
	var helpers []*ssa.Function
	for _, fn := range funcsInFiles(c, c06NoWrite) {
		if fn.Name() != "Call" {
			helpers = append(helpers, fn)
		}
	}
	c.addResults(c.runUnits(helpers, o3, so, 16))
	// package-wide frame clause: every other built-in of pkg/cl (gi and the other packages in the thorough tier)
	// must not store, append in place or copy into a list array that existed when it was entered. Functions that
	// are destructive by definition fail this on the pinned tree and stay undecided (never claimed); a function
	// that satisfies it on the pinned tree is held to it.
	done := map[string]bool{}
	for _, l := range [][]string{c06Fresh, c06Tail, c06NoWrite} {
		for _, fn := range funcsInFiles(c, l) {
			done[vc.FuncName(fn)] = true
		}
	}
	// gi is in the quick tier as well: its with-... forms evaluate sub-forms of their first argument and must keep
	// the values out of that form (a value stored there is what the next evaluation of the same code finds)
	pk := map[string]bool{"cl": true, "gi": true}
	if c.Tier == "thorough" {
		for _, p := range c09Pkgs {
			pk[p] = true
		}
	}
	var rest []*ssa.Function
	var names []string
	for n := range c.P.Funcs {
		names = append(names, n)
	}
	sort.Strings(names)
	for _, n := range names {
		fn := c.P.Funcs[n]
		if pk[pkgShort(fn)] && isCallMethod(fn) && !done[n] {
			rest = append(rest, fn)
			continue
		}
		// helpers that evaluate forms themselves (clause preparation of select, binding helpers ...) hold the
		// forms of their caller: they are under the clause on their own, they are too large or loop and are
		// not inlined into the Call method
		if pk[pkgShort(fn)] && !done[n] && fn.Parent() == nil && len(fn.Blocks) > 0 && fn.Synthetic == "" && !strings.Contains(fn.Name(), "init") && vc.EvaluatesForms(fn) {
			rest = append(rest, fn)
		}
	}
	o4 := base
	o4.InlineSize = 80
	resRest := c.runUnits(rest, o4, &vc.SolveOpts{TimeoutMs: 1500, RaceTimeout: 4 * time.Second, Models: false}, 16)
	for _, r := range resRest {
		if r == nil {
			continue
		}
		var keep []*vc.Obligation
		for _, ob := range r.Obls {
			if strings.HasPrefix(ob.Kind, "frame:") {
				keep = append(keep, ob)
			}
		}
		r.Obls = keep
	}
	c.addResults(resRest)
	c.Extra["package_wide_frame_functions"] = len(rest)
	c.Covers = func(name string) bool {
		return c.Tier == "thorough" || strings.HasPrefix(name, "cl.") || strings.HasPrefix(name, "gi.") || strings.HasPrefix(name, "slip.") || strings.HasPrefix(name, "generic.") || strings.HasPrefix(name, "repl.")
	}
	// explicit sequence contracts tagged C06 (insertMethod, Stash.clear)
	runContracts(c, cs, vc.Options{Safety: false, InlineDepth: 2, InlineSize: 80}, so)
	c.Assume = append(c.Assume, "callees that are not inlined are abstracted (their own stores are their own obligations only if they are in the file lists)",
		"arrays returned by opaque callees are not known to be fresh: such results stay undecided")
}

type laTarget struct {
	Type string `json:"type"`
	Mode string `json:"mode"`
}
type laResult struct {
	Type     string `json:"type"`
	Name     string `json:"name"`
	Status   string `json:"status"`
	Failures []struct {
		Kind string `json:"kind"`
		Lisp string `json:"lisp"`
		Note string `json:"note"`
	} `json:"failures"`
}

var rootTypeRe = regexp.MustCompile(`^([a-z]+)\.\(\*([A-Za-z0-9_]+)\)\.`)

func replayListAlias(c *Ctx, items []*Item) map[string]*ReplayOutcome {
	res := map[string]*ReplayOutcome{}
	bin, err := buildHarness("listalias")
	if err != nil {
		c.Notes = append(c.Notes, "listalias harness: "+err.Error())
		return res
	}
	typesOf := func(root string) []string {
		m := rootTypeRe.FindStringSubmatch(root)
		if m == nil {
			return nil
		}
		t := "*" + m[1] + "." + m[2]
		if t == "*cl.Delete" {
			return []string{"*cl.Remove", "*cl.RemoveIf", "*cl.Delete"}
		}
		return []string{t}
	}
	tailFiles := map[string]bool{}
	for _, fn := range funcsInFiles(c, c06Tail) {
		tailFiles[vc.FuncName(fn)] = true
	}
	seen := map[string]bool{}
	var targets []laTarget
	// only the functions the property names as non-destructive have an oracle here: a destructive function
	// (nconc, fill, nreverse ...) changing its argument is what it is for, not a failing input
	listed := map[string]bool{}
	for _, l := range [][]string{c06Fresh, c06Tail, c06NoWrite} {
		for _, fn := range funcsInFiles(c, l) {
			listed[vc.FuncName(fn)] = true
		}
	}
	var own, rest []*Item
	for _, it := range items {
		if listed[it.Root] {
			own = append(own, it)
		} else {
			rest = append(rest, it)
		}
	}
	// the other built-ins: only inputs written down with the result the language requires (harness/speccheck)
	for name, oc := range replaySpecCases(c, rest) {
		res[name] = oc
	}
	items = own
	for _, it := range items {
		for _, t := range typesOf(it.Root) {
			if seen[t] {
				continue
			}
			seen[t] = true
			mode := "fresh"
			if tailFiles[it.Root] {
				mode = "fresh-or-tail"
			}
			targets = append(targets, laTarget{t, mode})
		}
	}
	if len(targets) == 0 {
		return res
	}
	in, _ := json.Marshal(targets)
	scratch, _ := os.MkdirTemp("", "slipvc-la-")
	defer os.RemoveAll(scratch)
	cmd := exec.Command(bin)
	cmd.Dir = scratch
	cmd.Stdin = bytes.NewReader(in)
	var stdout bytes.Buffer
	cmd.Stdout = &stdout
	_ = cmd.Run()
	out := map[string]*laResult{}
	dec := json.NewDecoder(&stdout)
	for {
		var r laResult
		if err := dec.Decode(&r); err != nil {
			break
		}
		rr := r
		out[r.Type] = &rr
	}
	for _, it := range items {
		oc := &ReplayOutcome{Harness: "list-alias"}
		for _, t := range typesOf(it.Root) {
			r := out[t]
			if r == nil || r.Status != "ok" {
				continue
			}
			oc.Ran = true
			for _, f := range r.Failures {
				if !oc.Failed {
					oc.Failed = true
					oc.Input = f.Lisp
					oc.Observed = f.Kind + ": " + f.Note
					oc.Expected = "arguments unchanged; result independent of the arguments (or a true tail)"
				}
			}
		}
		res[it.Name] = oc
	}
	return res
}
