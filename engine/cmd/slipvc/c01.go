package main

import "slipvc/vc"

func init() {
	register(&propDef{id: "C01", run: runTraceProp, level: "proof", technique: "contracts over a ghost evaluation trace (which sub-form is evaluated, how often, in which order and scope, with which result) on the evaluator's special forms; loop invariants; WP over go/ssa; z3"})
	register(&propDef{id: "C07", run: runTraceProp, level: "proof", technique: "contracts over a ghost evaluation trace (exit markers are forwarded, nothing is evaluated after them), ghost lock balance, fresh result objects; WP over go/ssa; z3"})
}

func runTraceProp(c *Ctx) {
	cs := loadContracts(c)
	opt := vc.Options{Safety: false, InlineDepth: 2, InlineSize: 100}
	runContracts(c, cs, opt, defaultSolve())
	c.Assume = append(c.Assume,
		"every evaluation of a Lisp form (slip.EvalArg, Scope.Eval, Object.Eval, Caller.Call) is one ghost event with an arbitrary result and arbitrary effects on the heap",
		"composition over the nesting of forms (a sub-form's own evaluation obeys its own contract) is a meta-argument, not machine checked",
		"panicking exits (conditions) are not explored: cleanup-on-error clauses are not covered")
}
