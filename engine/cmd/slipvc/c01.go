package main

import (
	"bytes"
	"encoding/json"
	"os"
	"os/exec"
	"sort"
	"strings"

	"golang.org/x/tools/go/ssa"

	"slipvc/vc"
)

func init() {
	register(&propDef{id: "C01", run: runTraceProp, level: "proof", technique: "contracts over a ghost evaluation trace (which sub-form is evaluated, how often, in which order and scope, with which result) on the evaluator's special forms; loop invariants; WP over go/ssa; z3"})
	register(&propDef{id: "C07", run: runTraceProp, level: "proof", technique: "contracts over a ghost evaluation trace (exit markers are forwarded, nothing is evaluated after them), ghost lock balance, fresh result objects; WP over go/ssa; z3"})
}

func runTraceProp(c *Ctx) {
	cs := loadContracts(c)
	opt := vc.Options{Safety: false, InlineDepth: 2, InlineSize: 100}
	c.Replayer = withSpecCases(replayExits)
	runContracts(c, cs, opt, defaultSolve())
	if c.Prop == "C07" {
		sweepTrace(c, cs, opt, "forward-exits")
	}
	if c.Prop == "C01" {
		sweepTrace(c, cs, opt, "eval-once")
	}
	c.Assume = append(c.Assume,
		"every evaluation of a Lisp form (slip.EvalArg, Scope.Eval, Object.Eval, Caller.Call) is one ghost event with an arbitrary result and arbitrary effects on the heap",
		"composition over the nesting of forms (a sub-form's own evaluation obeys its own contract) is a meta-argument, not machine checked",
		"panicking exits (conditions) are not explored: cleanup-on-error clauses are not covered")
}

// sweepExits: the package-wide contract `every-function <pkg> forward-exits`: every function of the package
// that evaluates Lisp forms itself (slip.EvalArg, Scope.Eval) and has no C07 contract of its own is verified
// against the exit-forwarding discipline: nothing is evaluated after an evaluation returned a return-from / go
// marker, and the marker is what the function returns.
//
// With option eval-once (C01) the clause is: the forms of the function's own argument list are evaluated
// left to right, none twice (iteration constructs fail this by design and stay undecided).
func sweepTrace(c *Ctx, cs *vc.Contracts, opt vc.Options, option string) {
	pkgs := map[string]bool{}
	for _, p := range cs.Sweeps[option] {
		pkgs[p] = true
	}
	if len(pkgs) == 0 {
		return
	}
	var names []string
	for n := range c.P.Funcs {
		names = append(names, n)
	}
	sort.Strings(names)
	var roots []*ssa.Function
	for _, n := range names {
		fn := c.P.Funcs[n]
		if !pkgs[pkgShort(fn)] || len(fn.Blocks) == 0 || fn.Parent() != nil || !vc.EvaluatesForms(fn) {
			continue
		}
		if ct := cs.ByFunc[n]; ct != nil {
			continue // has a contract block (its own exit clauses, or deliberately none)
		}
		roots = append(roots, fn)
	}
	// synthetic contract blocks: the package-wide clause applied to each function
	for _, fn := range roots {
		n := vc.FuncName(fn)
		cs.ByFunc[n] = &vc.Contract{Func: n, Loops: map[string][]*vc.Clause{}, Options: map[string]bool{option: true}, Props: []string{c.Prop}}
	}
	o := opt
	o.Contracts = cs
	res := c.runUnits(roots, o, defaultSolve(), 16)
	c.addResults(res)
	c.Extra[strings.ReplaceAll(option, "-", "_")+"_sweep_functions"] = len(roots)
}

// lispNameOf: the Lisp name of the built-in whose Call method (or Place) is the root.
func lispNames(c *Ctx) map[string]string {
	out := map[string]string{}
	for _, d := range c.P.DocArities() {
		out[d.Pkg+".(*"+d.TypeName+").Call"] = d.LispName
	}
	// ordinary functions get their arguments from Function.Eval: any of them shows what it does
	out["slip.(*Function).Eval"] = "list"
	return out
}

type exitResult struct {
	Failed   bool   `json:"failed"`
	Input    string `json:"input"`
	Observed string `json:"observed"`
	Expected string `json:"expected"`
	Ran      int    `json:"ran"`
}

// replayExits: exit-forwarding obligations are replayed by evaluating generic shapes of the form with a
// (return-from ..) / (go ..) sub-form followed by a logging form (harness/exits).
func replayExits(c *Ctx, items []*Item) map[string]*ReplayOutcome {
	res := map[string]*ReplayOutcome{}
	names := lispNames(c)
	want := map[string]bool{}
	for _, it := range items {
		if ln := names[it.Root]; ln != "" && exitObligation(it.Name) && ln != "unwind-protect" {
			want[ln] = true
		}
	}
	if len(want) == 0 {
		return res
	}
	var forms []string
	for f := range want {
		forms = append(forms, f)
	}
	sort.Strings(forms)
	bin, err := buildHarness("exits")
	if err != nil {
		return res
	}
	scratch, _ := os.MkdirTemp("", "slipvc-exits-")
	defer os.RemoveAll(scratch)
	in, _ := json.Marshal(map[string]any{"forms": forms})
	cmd := exec.Command(bin)
	cmd.Dir = scratch
	cmd.Stdin = bytes.NewReader(in)
	out, err := cmd.Output()
	if err != nil {
		c.Notes = append(c.Notes, "exits harness: "+err.Error())
		return res
	}
	var parsed struct {
		Results map[string]*exitResult `json:"results"`
	}
	if json.Unmarshal(out, &parsed) != nil {
		return res
	}
	for _, it := range items {
		ln := names[it.Root]
		r := parsed.Results[ln]
		if r == nil || !exitObligation(it.Name) {
			continue
		}
		oc := &ReplayOutcome{Harness: "exits", Ran: true}
		if r.Failed {
			oc.Failed, oc.Input, oc.Observed, oc.Expected = true, r.Input, r.Observed, r.Expected
			oc.Class = "(" + ln + " ...) does not forward an exit"
		}
		res[it.Name] = oc
	}
	return res
}

func exitObligation(name string) bool {
	return strings.Contains(name, "/trace@exit-forwarded") || strings.Contains(name, "/trace@no-eval-after-exit") || strings.Contains(name, "/post@exit")
}
