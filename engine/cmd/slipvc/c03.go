package main

import (
	"sort"

	"golang.org/x/tools/go/ssa"

	"bytes"
	"encoding/json"
	"os"
	"os/exec"
	"regexp"
	"strconv"
	"strings"

	"slipvc/vc"
)

func init() {
	register(&propDef{id: "C03", run: runC03, level: "proof", technique: "contracts on the printer's Readably methods (loop invariant over the quoting scan, abstract digit sequences for the radix prefix) plus per-byte table lemmas between printer and reader tables; WP over go/ssa; z3"})
}

func runC03(c *Ctx) {
	cs := loadContracts(c)
	c.Replayer = replayPrintRead
	opt := vc.Options{Safety: true, InlineDepth: 2, InlineSize: 100}
	if c.Tier != "thorough" && !c.WriteBase {
		// the quick tier sweeps the root package only: append-only obligations of the other packages are
		// outside its scope (they are not "no longer generated")
		c.Covers = func(name string) bool {
			return !strings.Contains(name, "/post@appends-only") || strings.HasPrefix(name, "slip.")
		}
	}
	markAppendOnly(c, cs)
	runContracts(c, cs, opt, defaultSolve())
	sweepAppendOnly(c, cs)
	c.Assume = append(c.Assume,
		"strconv.AppendInt and (*big.Int).Append are assumed to append an abstract digit sequence dig(v, base, j) of length ndig(v, base) (their inverse, the reader's number parser, is not covered)",
		"floats, ratios, strings, characters, arrays and the pretty printer are not yet under contract")
}

var byteIdxRe = regexp.MustCompile(`\[(\d+)\]$`)

func replayPrintRead(c *Ctx, items []*Item) map[string]*ReplayOutcome {
	res := map[string]*ReplayOutcome{}
	bin, err := buildHarness("printread")
	if err != nil {
		c.Notes = append(c.Notes, "printread harness: "+err.Error())
		return res
	}
	var bs []int
	ints := false
	for _, it := range items {
		if m := byteIdxRe.FindStringSubmatch(it.Name); m != nil && strings.Contains(it.Name, "lemma@") {
			n, _ := strconv.Atoi(m[1])
			bs = append(bs, n)
		} else if strings.Contains(it.Root, "Fixnum") || strings.Contains(it.Root, "Bignum") {
			ints = true
		} else if strings.Contains(it.Root, "Symbol") {
			for b := 0; b < 256; b++ {
				bs = append(bs, b)
			}
		}
	}
	in, _ := json.Marshal(map[string]any{"symbol_bytes": bs, "integers": ints})
	scratch, _ := os.MkdirTemp("", "slipvc-pr-")
	defer os.RemoveAll(scratch)
	cmd := exec.Command(bin)
	cmd.Dir = scratch
	cmd.Stdin = bytes.NewReader(in)
	out, err := cmd.Output()
	if err != nil {
		c.Notes = append(c.Notes, "printread harness run: "+err.Error())
		return res
	}
	var r struct {
		Failures []struct {
			Kind   string `json:"kind"`
			Byte   int    `json:"byte"`
			Input  string `json:"input"`
			Text   string `json:"text"`
			Result string `json:"result"`
		} `json:"failures"`
	}
	_ = json.Unmarshal(out, &r)
	for _, it := range items {
		oc := &ReplayOutcome{Harness: "print-read", Ran: true}
		if strings.HasPrefix(it.Kind, "safe:") {
			oc.Ran = false // a run-time fault needs the call-fault harness, not this one
			res[it.Name] = oc
			continue
		}
		if m := byteIdxRe.FindStringSubmatch(it.Name); m != nil && strings.Contains(it.Name, "lemma@") {
			n, _ := strconv.Atoi(m[1])
			for _, f := range r.Failures {
				if f.Kind == "symbol" && f.Byte == n {
					oc.Failed = true
					oc.Input = f.Input
					oc.Observed = "printed as " + f.Text + "; " + f.Result
					oc.Expected = "an equal symbol is read back"
				}
			}
		} else {
			want := "symbol"
			if strings.Contains(it.Root, "Fixnum") || strings.Contains(it.Root, "Bignum") {
				want = "integer"
			}
			for _, f := range r.Failures {
				if f.Kind == want && !oc.Failed {
					oc.Failed = true
					oc.Input = f.Input
					oc.Observed = "printed and read back as " + f.Text + " " + f.Result
					oc.Expected = "an equal object of the same type is read back"
				}
			}
		}
		res[it.Name] = oc
	}
	return res
}

// sweepAppendOnly: the package-wide contract `every-function <pkg> append-only`: every function of the shape
// f([recv,] b []byte, ...) []byte returns a buffer that starts with the bytes b held when it was called. Calls
// of functions of that shape are used by this contract (assume / guarantee), library functions of the shape
// (strconv.Append*, utf8.AppendRune, big.Int.Append, fmt.Append*, time.AppendFormat, ojg's AppendJSONString)
// are assumed to append as documented.
func sweepAppendOnly(c *Ctx, cs *vc.Contracts) {
	pkgs := map[string]bool{}
	for _, p := range cs.Sweeps["append-only"] {
		if p == "slip" || c.Tier == "thorough" || c.WriteBase {
			pkgs[p] = true
		}
	}
	if len(pkgs) == 0 {
		return
	}
	var names []string
	for n := range c.P.Funcs {
		names = append(names, n)
	}
	sort.Strings(names)
	var roots []*ssa.Function
	var synthetic []string
	foreign := map[string]bool{} // functions whose own contract belongs to another property: only the append-only obligation is this property's
	for _, n := range names {
		fn := c.P.Funcs[n]
		if !pkgs[pkgShort(fn)] || len(fn.Blocks) == 0 || fn.Parent() != nil || vc.AppendShape(fn) < 0 {
			continue
		}
		if c.Tier != "thorough" && !c.WriteBase {
			// quick tier: functions whose obligation is not discharged on the pinned tree cannot add a claim
			// (they stay listed as undecided in the thorough tier) - unless the function is new
			undecided, proved := false, false
			for name, be := range c.Baseline {
				if strings.HasPrefix(name, n+"/post@appends-only") {
					if be.Status == "discharged" {
						proved = true
					} else {
						undecided = true
					}
				}
			}
			if undecided && !proved {
				continue
			}
		}
		if ct := cs.ByFunc[n]; ct != nil {
			// a function with a contract of its own carries the option already (markAppendOnly); when that
			// contract is tagged C03 it has been verified by runContracts, otherwise it is verified here
			tagged := false
			for _, p := range ct.Props {
				if p == "C03" {
					tagged = true
				}
			}
			if !tagged {
				roots = append(roots, fn)
				foreign[n] = true
			}
			continue
		}
		cs.ByFunc[n] = &vc.Contract{Func: n, Loops: map[string][]*vc.Clause{}, Options: map[string]bool{"append-only": true, "no-lambda": true}, Props: []string{"C03"}}
		synthetic = append(synthetic, n)
		roots = append(roots, fn)
	}
	o := vc.Options{Safety: false, InlineDepth: 2, InlineSize: 100, Contracts: cs}
	res := c.runUnits(roots, o, defaultSolve(), 16)
	for _, r := range res {
		if r != nil && r.Err != "" {
			c.Notes = append(c.Notes, "append-only: not verifiable: "+r.Fn+": "+firstLine(r.Err))
		}
		if r != nil && foreign[r.Fn] {
			var keep []*vc.Obligation
			for _, ob := range r.Obls {
				if strings.Contains(ob.Name, "appends-only") {
					keep = append(keep, ob)
				}
			}
			r.Obls = keep
		}
	}
	c.addResults(res)
	for _, n := range synthetic {
		delete(cs.ByFunc, n)
	}
	c.Extra["append_only_sweep_functions"] = len(roots)
	c.Assume = append(c.Assume, "append-only is assumed at every call of a function of the shape f(b []byte, ...) []byte that is not inlined: module functions of that shape are each under the obligation themselves (those whose obligation is undecided are listed under undecided), interface methods Append / Readably / ScopedAppend implemented outside the module and the library functions strconv.Append*, utf8.AppendRune, (*big.Int).Append, (*big.Float).Append, fmt.Append*, time.AppendFormat, ojg AppendJSONString are assumed to append as documented")
}

// markAppendOnly puts the append-only option on the hand-written contracts of functions of the shape.
func markAppendOnly(c *Ctx, cs *vc.Contracts) {
	pkgs := map[string]bool{}
	for _, p := range cs.Sweeps["append-only"] {
		pkgs[p] = true
	}
	for n, ct := range cs.ByFunc {
		fn := c.P.Funcs[n]
		if fn == nil || !pkgs[pkgShort(fn)] || vc.AppendShape(fn) < 0 {
			continue
		}
		tagged := false
		for _, p := range ct.Props {
			if p == "C03" {
				tagged = true
			}
		}
		if tagged {
			// the hand-written C03 contracts (Symbol / String / Fixnum / Bignum / Character) state what they write
			// themselves; the extra quantified assumptions of this family made two of their proofs unstable
			continue
		}
		ct.Options["append-only"] = true
	}
}
