package main

import (
	"bytes"
	"encoding/json"
	"os"
	"os/exec"
	"regexp"
	"strconv"
	"strings"

	"slipvc/vc"
)

func init() {
	register(&propDef{id: "C03", run: runC03, level: "proof", technique: "contracts on the printer's Readably methods (loop invariant over the quoting scan, abstract digit sequences for the radix prefix) plus per-byte table lemmas between printer and reader tables; WP over go/ssa; z3"})
}

func runC03(c *Ctx) {
	cs := loadContracts(c)
	c.Replayer = replayPrintRead
	opt := vc.Options{Safety: true, InlineDepth: 2, InlineSize: 100}
	runContracts(c, cs, opt, defaultSolve())
	c.Assume = append(c.Assume,
		"strconv.AppendInt and (*big.Int).Append are assumed to append an abstract digit sequence dig(v, base, j) of length ndig(v, base) (their inverse, the reader's number parser, is not covered)",
		"floats, ratios, strings, characters, arrays and the pretty printer are not yet under contract")
}

var byteIdxRe = regexp.MustCompile(`\[(\d+)\]$`)

func replayPrintRead(c *Ctx, items []*Item) map[string]*ReplayOutcome {
	res := map[string]*ReplayOutcome{}
	bin, err := buildHarness("printread")
	if err != nil {
		c.Notes = append(c.Notes, "printread harness: "+err.Error())
		return res
	}
	var bs []int
	ints := false
	for _, it := range items {
		if m := byteIdxRe.FindStringSubmatch(it.Name); m != nil && strings.Contains(it.Name, "lemma@") {
			n, _ := strconv.Atoi(m[1])
			bs = append(bs, n)
		} else if strings.Contains(it.Root, "Fixnum") || strings.Contains(it.Root, "Bignum") {
			ints = true
		} else if strings.Contains(it.Root, "Symbol") {
			for b := 0; b < 256; b++ {
				bs = append(bs, b)
			}
		}
	}
	in, _ := json.Marshal(map[string]any{"symbol_bytes": bs, "integers": ints})
	scratch, _ := os.MkdirTemp("", "slipvc-pr-")
	defer os.RemoveAll(scratch)
	cmd := exec.Command(bin)
	cmd.Dir = scratch
	cmd.Stdin = bytes.NewReader(in)
	out, err := cmd.Output()
	if err != nil {
		c.Notes = append(c.Notes, "printread harness run: "+err.Error())
		return res
	}
	var r struct {
		Failures []struct {
			Kind   string `json:"kind"`
			Byte   int    `json:"byte"`
			Input  string `json:"input"`
			Text   string `json:"text"`
			Result string `json:"result"`
		} `json:"failures"`
	}
	_ = json.Unmarshal(out, &r)
	for _, it := range items {
		oc := &ReplayOutcome{Harness: "print-read", Ran: true}
		if strings.HasPrefix(it.Kind, "safe:") {
			oc.Ran = false // a run-time fault needs the call-fault harness, not this one
			res[it.Name] = oc
			continue
		}
		if m := byteIdxRe.FindStringSubmatch(it.Name); m != nil && strings.Contains(it.Name, "lemma@") {
			n, _ := strconv.Atoi(m[1])
			for _, f := range r.Failures {
				if f.Kind == "symbol" && f.Byte == n {
					oc.Failed = true
					oc.Input = f.Input
					oc.Observed = "printed as " + f.Text + "; " + f.Result
					oc.Expected = "an equal symbol is read back"
				}
			}
		} else {
			want := "symbol"
			if strings.Contains(it.Root, "Fixnum") || strings.Contains(it.Root, "Bignum") {
				want = "integer"
			}
			for _, f := range r.Failures {
				if f.Kind == want && !oc.Failed {
					oc.Failed = true
					oc.Input = f.Input
					oc.Observed = "printed and read back as " + f.Text + " " + f.Result
					oc.Expected = "an equal object of the same type is read back"
				}
			}
		}
		res[it.Name] = oc
	}
	return res
}
