package main

import (
	"encoding/json"
	"fmt"
	"os"
	"os/exec"

	"slipvc/vc"
)

func init() {
	register(&propDef{id: "C02", run: runC02, level: "proof", technique: "contracts on the reader: sequence postcondition of makeToken, on-store assertions for the carry buffer and the escape buffer in read, end-of-input postcondition, on-call assertion for the stream position; WP over go/ssa; z3"})
}

func runC02(c *Ctx) {
	cs := loadContracts(c)
	c.Replayer = replayReadCut
	opt := vc.Options{Safety: false, InlineDepth: 2, InlineSize: 100}
	runContracts(c, cs, opt, defaultSolve())
	c.Assume = append(c.Assume,
		"the meaning of tokens (resolveToken, number syntax) is not part of this property and not under contract",
		"the block-boundary clause is proved for every store to reader.carry inside read; that a token's pending bytes are a contiguous window of the block (tokenStart <= pos) is required by makeToken and not established for read on the pinned tree (undecided)")
}

type rcFailure struct {
	Kind  string `json:"kind"`
	Text  string `json:"text"`
	Chunk int    `json:"chunk"`
	Whole string `json:"whole"`
	Cut   string `json:"cut"`
}

func runReadCut() ([]rcFailure, error) {
	bin, err := buildHarness("readcut")
	if err != nil {
		return nil, err
	}
	scratch, _ := os.MkdirTemp("", "slipvc-rc-")
	defer os.RemoveAll(scratch)
	cmd := exec.Command(bin)
	cmd.Dir = scratch
	out, err := cmd.Output()
	if err != nil {
		return nil, err
	}
	var r struct {
		Failures []rcFailure `json:"failures"`
	}
	if err := json.Unmarshal(out, &r); err != nil {
		return nil, err
	}
	return r.Failures, nil
}

// replayReadCut: inputs that fail on the pinned tree already (baseline/C02.readcut.json)
// are not attributed to a new obligation failure; only new failing inputs confirm.
func replayReadCut(c *Ctx, items []*Item) map[string]*ReplayOutcome {
	res := map[string]*ReplayOutcome{}
	// read-from-string has its own oracle (the window read on its own)
	var other []*Item
	for _, it := range items {
		if it.Root == "cl.(*ReadFromString).Call" {
			res[it.Name] = replayRFS(c)
		} else {
			other = append(other, it)
		}
	}
	items = other
	if len(items) == 0 {
		return res
	}
	fails, err := runReadCut()
	if err != nil {
		c.Notes = append(c.Notes, "readcut harness: "+err.Error())
		return res
	}
	known := map[string]bool{}
	var base []rcFailure
	loadJSON(verifDir+"/baseline/C02.readcut.json", &base)
	for _, f := range base {
		known[fmt.Sprintf("%s|%d|%s", f.Text, f.Chunk, f.Kind)] = true
	}
	var fresh []rcFailure
	for _, f := range fails {
		if !known[fmt.Sprintf("%s|%d|%s", f.Text, f.Chunk, f.Kind)] {
			fresh = append(fresh, f)
		}
	}
	c.Extra["readcut_inputs_failing_on_pinned_tree"] = len(base)
	c.Extra["readcut_new_failing_inputs"] = len(fresh)
	for _, it := range items {
		oc := &ReplayOutcome{Harness: "read-cut", Ran: true}
		if len(fresh) > 0 {
			f := fresh[0]
			oc.Failed = true
			oc.Input = fmt.Sprintf("text %q delivered in pieces of %d bytes (%s)", f.Text, f.Chunk, f.Kind)
			oc.Observed = f.Cut
			oc.Expected = f.Whole
		}
		res[it.Name] = oc
	}
	return res
}

var rfsOnce *ReplayOutcome

func replayRFS(c *Ctx) *ReplayOutcome {
	if rfsOnce != nil {
		return rfsOnce
	}
	oc := &ReplayOutcome{Harness: "rfs"}
	rfsOnce = oc
	bin, err := buildHarness("rfs")
	if err != nil {
		return oc
	}
	scratch, _ := os.MkdirTemp("", "slipvc-rfs-")
	defer os.RemoveAll(scratch)
	cmd := exec.Command(bin)
	cmd.Dir = scratch
	out, err := cmd.Output()
	if err != nil {
		c.Notes = append(c.Notes, "rfs harness: "+err.Error())
		return oc
	}
	var r struct {
		Failures []struct{ Input, Observed, Expected string } `json:"failures"`
	}
	if json.Unmarshal(out, &r) != nil {
		return oc
	}
	oc.Ran = true
	if len(r.Failures) > 0 {
		oc.Failed, oc.Input, oc.Observed, oc.Expected = true, r.Failures[0].Input, r.Failures[0].Observed, r.Failures[0].Expected
		oc.Class = "read-from-string with :start / :end returns a position that is not the window's own result moved by start"
	}
	return oc
}
