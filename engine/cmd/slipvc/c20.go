package main

import "slipvc/vc"

func init() {
	register(&propDef{id: "C20", run: runC20, level: "proof", technique: "contracts (sequence postconditions, ghost file-system log) on pkg/repl History/Stash; WP over go/ssa; z3/cvc5"})
}

func runC20(c *Ctx) {
	cs := loadContracts(c)
	opt := vc.Options{Safety: true, InlineDepth: 2, InlineSize: 80}
	runContracts(c, cs, opt, defaultSolve())
}
