package vc

import (
	"os"
	"sort"
	"fmt"
	"go/token"
	"go/types"
	"strings"

	"golang.org/x/tools/go/ssa"
)

type unsupported struct{ msg string }

// RunFunction symbolically executes fn from an arbitrary well-typed entry
// state and collects obligations.
func (e *Exec) RunFunction(fn *ssa.Function) (err error) {
	defer func() {
		if r := recover(); r != nil {
			if u, ok := r.(unsupported); ok {
				err = fmt.Errorf("out of subset: %s", u.msg)
				return
			}
			panic(r)
		}
	}()
	e.Root = fn
	e.lines = append(e.lines, Prelude)
	if c := e.contractOf(fn); c != nil && c.Options["exact"] {
		e.Opt.Exact = true
	}
	if c := e.contractOf(fn); c != nil && c.Options["exact-compare"] {
		e.Opt.Exact = true
		e.Opt.ExactCompare = true
	}
	if c := e.contractOf(fn); c != nil && c.Options["operands-kept"] {
		e.Opt.OperandsKept = true
	}
	if c := e.contractOf(fn); c != nil && c.Options["no-lambda"] {
		e.Opt.NoLambda = true // bulk copies as pattern-guarded quantified axioms instead of lambda arrays
	}
	if c := e.contractOf(fn); c != nil && (c.Options["trace"] || c.Options["eval-once"] || c.Options["forward-exits"] || c.Options["forward-body-exits"] || c.Options["lock-balance"] || len(c.AtEvals) > 0) {
		InstallTrace(e, &TraceHook{LockBalance: c.Options["lock-balance"], EvalOnce: c.Options["eval-once"], ForwardExits: c.Options["forward-exits"], ForwardBodyExits: c.Options["forward-body-exits"], ConsumesReturn: c.Options["consumes-return"], AtEvals: c.AtEvals})
		e.ghostOn = true
	}
	st := &State{pc: True, heap: map[string]*Term{}}
	a0 := e.fresh(SInt, "alloc0")
	e.emit("(assert (< 0 %s))", a0.S)
	st.heap["$alloc"] = a0
	fr := &Frame{fn: fn, vals: map[ssa.Value]Value{}, locals: map[*ssa.Alloc]string{}}
	if e.Opt.Setup != nil {
		e.Opt.Setup(e)
	}
	if c := e.contractOf(fn); c != nil && len(c.CountCalls)+len(c.CountStores) > 0 {
		if e.InitHeap == nil {
			e.InitHeap = map[string]*Term{}
		}
		for _, n := range c.CountCalls {
			e.InitHeap["L$ncall_"+n] = IntLit(0)
		}
		for _, n := range c.CountStores {
			e.InitHeap["L$nstore_"+n] = IntLit(0)
		}
		e.ghostOn = true
	}
	for k, v := range e.InitHeap {
		st.heap[k] = v
	}
	for _, p := range fn.Params {
		v := e.havocValue(p.Type(), True, "p_"+p.Name())
		fr.vals[p] = v
		e.assumeParam(st, p.Type(), v)
		if p.Name() == "args" {
			if t, ok := v.(*Term); ok && t.Sort == SSl {
				e.rootArgs = t
			}
		}
	}
	for _, fv := range fn.FreeVars {
		// captured variable: pointer to a cell of unknown contents
		v := e.havocValue(fv.Type(), True, "fv_"+fv.Name())
		fr.vals[fv] = v
		e.assumeParam(st, fv.Type(), v)
	}
	if c := e.contractOf(fn); c != nil && c.Options["wf-entry-slices"] {
		// memory-model fact about the entry heap: every slice stored in a slice-of-slices
		// parameter's kind of array at entry was allocated before entry (the executed code
		// gets the same fact per load from assumeLoaded)
		seen := map[string]bool{}
		for _, p := range fn.Params {
			sl, ok := p.Type().Underlying().(*types.Slice)
			if !ok || sortOf(sl.Elem()) != SSl || seen[arrComp(sl.Elem())] {
				continue
			}
			seen[arrComp(sl.Elem())] = true
			h := e.heapRead(st, arrComp(sl.Elem()), ArrSort(ArrSort(SSl)))
			e.emit("(assert (forall ((a!w Int) (k!w Int)) (! (< (sl-id (select (select %s a!w) k!w)) %s) :pattern ((select (select %s a!w) k!w)))))", h.S, a0.S, h.S)
		}
	}
	e.entry = st.clone()
	e.aoEntry(fr, st, fn, e.contractOf(fn))
	if c := e.contractOf(fn); c != nil {
		e.mustDefer(fn, st, c)
		e.lemmas(fr, st, c)
		e.assumeRequires(fr, st, c)
	}
	e.execFunc(fr, st)
	if c := e.contractOf(fn); c != nil {
		for i, os := range c.OnStores {
			lbl := os.Label
			if lbl == "" {
				lbl = fmt.Sprint(i + 1)
			}
			if e.clauseUsed[os.Field+":"+lbl] == 0 {
				return fmt.Errorf("out of subset: on-store clause %s:%s applies at no store of %s", os.Field, lbl, FuncName(fn))
			}
		}
		for i, oc := range c.OnCalls {
			lbl := oc.Label
			if lbl == "" {
				lbl = fmt.Sprint(i + 1)
			}
			if e.clauseUsed["call:"+oc.Callee+":"+lbl] == 0 {
				return fmt.Errorf("out of subset: on-call clause %s:%s applies at no call in %s", oc.Callee, lbl, FuncName(fn))
			}
		}
		for i, cl := range c.Ensures {
			if e.clauseUsed["ensures:"+clauseName(cl, i)] == 0 && e.returnsSeen > 0 {
				return fmt.Errorf("out of subset: ensures clause %s applies at no return of %s (contract: unknown identifier at every return)", clauseName(cl, i), FuncName(fn))
			}
		}
		for i, om := range c.OnMapUpdates {
			lbl := om.Label
			if lbl == "" {
				lbl = fmt.Sprint(i + 1)
			}
			if e.clauseUsed["mapupd:"+om.Field+":"+lbl] == 0 {
				return fmt.Errorf("out of subset: on-map-update clause %s:%s applies at no map update of %s", om.Field, lbl, FuncName(fn))
			}
		}
		for i, om := range c.OnMapDeletes {
			lbl := om.Label
			if lbl == "" {
				lbl = fmt.Sprint(i + 1)
			}
			if e.clauseUsed["mapdel:"+om.Field+":"+lbl] == 0 {
				return fmt.Errorf("out of subset: on-map-delete clause %s:%s applies at no delete in %s", om.Field, lbl, FuncName(fn))
			}
		}
		if err := e.confineDone(fn, c); err != nil {
			return err
		}
		if err := e.afterLoops(fn, c); err != nil {
			return err
		}
		for _, ns := range c.NoStores {
			if !e.noStoreHit[ns] {
				// no store to the field on any explored path: discharged structurally
				e.curFr, e.curIn = nil, nil
				e.oblige(&State{pc: True, heap: map[string]*Term{}}, "no-store", ns, True, "")
			}
		}
	}
	for _, h := range e.hooks {
		if th, ok := h.(*TraceHook); ok {
			if un := th.unusedAtEvals(); len(un) > 0 {
				return fmt.Errorf("out of subset: at-eval clause applies at no program point: %v", un)
			}
		}
	}
	if c := e.contractOf(fn); c != nil {
		for _, k := range c.FullLoops {
			if !e.usedLoopKeys["full:"+k] {
				return fmt.Errorf("out of subset: contract full-loop key %q matches no loop of %s", k, FuncName(fn))
			}
		}
		for key := range c.Loops {
			if !e.usedLoopKeys[key] {
				return fmt.Errorf("out of subset: contract loop key %q matches no loop of %s", key, FuncName(fn))
			}
		}
	}
	return nil
}

func (e *Exec) assumeParam(st *State, t types.Type, v Value) {
	tv, ok := v.(*Term)
	if !ok {
		return
	}
	switch t.Underlying().(type) {
	case *types.Pointer, *types.Map, *types.Chan:
		e.assume(True, Lt(tv, st.heap["$alloc"]))
	case *types.Slice:
		e.assume(True, Lt(App(SInt, "sl-id", tv), st.heap["$alloc"]))
	}
}

type edge struct {
	from *ssa.BasicBlock
	st   *State
}

type retInfo struct {
	st  *State
	res []Value
}

// execFunc runs the blocks of fr.fn starting in state in; returns the merged
// state at normal returns (nil if the function never returns) and results.
func (e *Exec) execFunc(fr *Frame, in *State) (*State, Value) {
	fn := fr.fn
	if len(fn.Blocks) == 0 {
		panic(unsupported{"function without body: " + fn.String()})
	}
	order := rpo(fn)
	pos := map[*ssa.BasicBlock]int{}
	for i, b := range order {
		pos[b] = i
	}
	incoming := map[*ssa.BasicBlock][]edge{}
	var rets []retInfo
	c := e.contractOf(fn)
	if c == nil && fr.parent != nil && fn.Parent() == e.Root && strings.HasSuffix(fr.path, "defer>") {
		c = e.contractOf(e.Root) // loop invariants of a deferred closure are written in the enclosing function's contract
	}
	for _, b := range order {
		var st *State
		isHeader := false
		var backPreds []*ssa.BasicBlock
		for _, p := range b.Preds {
			if b.Dominates(p) {
				isHeader = true
				backPreds = append(backPreds, p)
			} else if pos[p] >= pos[b] {
				if _, reach := pos[p]; reach {
					panic(unsupported{"irreducible control flow in " + fn.String()})
				}
			}
		}
		if b == fn.Blocks[0] {
			st = in
		} else {
			ins := incoming[b]
			if len(ins) == 0 {
				continue // unreachable on the explored paths
			}
			var sts []*State
			for _, ed := range ins {
				sts = append(sts, ed.st)
			}
			st = e.mergeStates(sts)
			// phi nodes
			for _, in := range b.Instrs {
				phi, ok := in.(*ssa.Phi)
				if !ok {
					break
				}
				var v Value
				for i := len(ins) - 1; i >= 0; i-- {
					pv := e.phiEdgeValue(fr, phi, b, ins[i].from)
					if v == nil {
						v = pv
					} else {
						v = e.iteValue(ins[i].st.pc, pv, v)
					}
				}
				fr.vals[phi] = e.nameValue(v)
				if e.Opt.Exact {
					e.mergeExact(fr, phi, b, ins)
				}
			}
		}
		if isHeader {
			st = e.loopHeader(fr, b, st, incoming[b], backPreds, c)
		}
		// instructions
		alive := true
		for _, in := range b.Instrs {
			if _, ok := in.(*ssa.Phi); ok {
				continue
			}
			if !e.step(fr, st, in, b, incoming, &rets, c) {
				alive = false
				break
			}
		}
		_ = alive
	}
	if len(rets) == 0 {
		return nil, nil
	}
	var sts []*State
	for _, r := range rets {
		sts = append(sts, r.st)
	}
	out := e.mergeStates(sts)
	var res Value
	nres := fn.Signature.Results().Len()
	if nres > 0 {
		var vals []Value
		for k := 0; k < nres; k++ {
			var v Value
			for i := len(rets) - 1; i >= 0; i-- {
				if v == nil {
					v = rets[i].res[k]
				} else {
					v = e.iteValue(rets[i].st.pc, rets[i].res[k], v)
				}
			}
			vals = append(vals, e.nameValue(v))
		}
		if nres == 1 {
			res = vals[0]
		} else {
			res = &Tuple{Vs: vals}
		}
	}
	return out, res
}

func (e *Exec) phiEdgeValue(fr *Frame, phi *ssa.Phi, b, from *ssa.BasicBlock) Value {
	for i, p := range b.Preds {
		if p == from {
			return e.val(fr, phi.Edges[i])
		}
	}
	panic(unsupported{"phi edge not found"})
}

func rpo(fn *ssa.Function) []*ssa.BasicBlock {
	seen := map[*ssa.BasicBlock]bool{}
	var post []*ssa.BasicBlock
	var visit func(b *ssa.BasicBlock)
	visit = func(b *ssa.BasicBlock) {
		if seen[b] {
			return
		}
		seen[b] = true
		for _, s := range b.Succs {
			visit(s)
		}
		post = append(post, b)
	}
	visit(fn.Blocks[0])
	if fn.Recover != nil {
		// the recover block is entered only after a recovered panic; explored separately
	}
	for i, j := 0, len(post)-1; i < j; i, j = i+1, j-1 {
		post[i], post[j] = post[j], post[i]
	}
	return post
}

// val returns the symbolic value of an SSA value in a frame.
func (e *Exec) val(fr *Frame, v ssa.Value) Value {
	switch x := v.(type) {
	case *ssa.Const:
		return e.constVal(x)
	case *ssa.Global:
		return &Loc{Kind: LGlobal, Comp: "G_" + x.Pkg.Pkg.Name() + "." + x.Name(), Type: x.Type().(*types.Pointer).Elem()}
	case *ssa.Function:
		return e.funcConst(x)
	case *ssa.Builtin:
		return IntLit(0)
	}
	for f := fr; f != nil; f = f.parent {
		if r, ok := f.vals[v]; ok {
			return r
		}
		if f.fn != nil && v.Parent() == f.fn {
			break
		}
	}
	if fr.vals[v] == nil {
		// value defined in an unexplored (unreachable) block or unsupported
		hv := e.havocValue(v.Type(), True, "undef")
		fr.vals[v] = hv
		return hv
	}
	return fr.vals[v]
}

func (e *Exec) funcConst(fn *ssa.Function) *Term {
	k := "fn_" + sanitize(fn.String())
	if !e.declared[k] {
		e.declared[k] = true
		e.emit("(declare-const %s Int)", k)
		e.emit("(assert (< 0 %s))", k)
	}
	return &Term{k, SInt}
}

func (e *Exec) term(fr *Frame, st *State, v ssa.Value) *Term {
	r := e.val(fr, v)
	return e.asTerm(st, r, v.Type())
}

// ---------------------------------------------------------------------------
// loops

func loopBlocks(h *ssa.BasicBlock, backPreds []*ssa.BasicBlock) map[*ssa.BasicBlock]bool {
	in := map[*ssa.BasicBlock]bool{h: true}
	var stack []*ssa.BasicBlock
	for _, p := range backPreds {
		if !in[p] {
			in[p] = true
			stack = append(stack, p)
		}
	}
	for len(stack) > 0 {
		b := stack[len(stack)-1]
		stack = stack[:len(stack)-1]
		for _, p := range b.Preds {
			if !in[p] && h.Dominates(p) {
				in[p] = true
				stack = append(stack, p)
			}
		}
	}
	return in
}

type loopInfo struct {
	header *ssa.BasicBlock
	key    string
	invs   []*loopInv
	body   map[*ssa.BasicBlock]bool
	noBreak bool // contract: the loop is left only through its header test (every element is visited)
	decr    []*loopDecr
	decrPending []*loopDecr
	steps   []*loopStep
	exits   []*loopStep // assertions at every edge that leaves the loop
	hv      map[*ssa.Phi]Value // the phi values of the arbitrary iteration (header)
}

// loopStep: a relation that one iteration establishes between the values of the loop variables before
// it (prev(x)) and after it.
type loopStep struct {
	name string
	eval func(now, before map[*ssa.Phi]Value, st *State, point ssa.Instruction) *Term
}

// loopDecr: a measure that every iteration strictly decreases and that is non-negative whenever the body is entered
// (direction of a scan, and termination of the loop).
type loopDecr struct {
	name string
	eval func(phis map[*ssa.Phi]Value, st *State) *Term
	old  *Term // value at the (arbitrary iteration) header
}

type loopInv struct {
	name string
	cand bool
	// eval builds the invariant over the given phi values and state
	eval func(phis map[*ssa.Phi]Value, st *State) *Term
}

func allocRoot(v ssa.Value) *ssa.Alloc {
	for {
		switch x := v.(type) {
		case *ssa.Alloc:
			return x
		case *ssa.FieldAddr:
			v = x.X
		case *ssa.IndexAddr:
			v = x.X
		default:
			return nil
		}
	}
}

func (e *Exec) loopHeader(fr *Frame, h *ssa.BasicBlock, st *State, fwd []edge, backPreds []*ssa.BasicBlock, c *Contract) *State {
	body := loopBlocks(h, backPreds)
	// static modification set of the loop body
	ms := &ModSet{Comps: map[string]bool{}}
	localsTouched := map[*ssa.Alloc]bool{}
	for _, b := range sortedBlocks(body) {
		for _, in := range b.Instrs {
			e.P.InstrMods(in, ms)
			switch x := in.(type) {
			case *ssa.Store:
				if a := allocRoot(x.Addr); a != nil {
					localsTouched[a] = true
				}
			case *ssa.Call:
				for _, a := range x.Call.Args {
					if r := allocRoot(a); r != nil {
						localsTouched[r] = true
					}
				}
				if r := allocRoot(x.Call.Value); r != nil {
					localsTouched[r] = true
				}
			case *ssa.MakeClosure:
				for _, a := range x.Bindings {
					if r := allocRoot(a); r != nil {
						localsTouched[r] = true
					}
				}
			}
		}
	}
	pre := st.clone()
	// phi values on entry (already merged from forward edges)
	var phis []*ssa.Phi
	initVals := map[*ssa.Phi]Value{}
	for _, in := range h.Instrs {
		phi, ok := in.(*ssa.Phi)
		if !ok {
			break
		}
		phis = append(phis, phi)
		var v Value
		for i := len(fwd) - 1; i >= 0; i-- {
			pv := e.phiEdgeValue(fr, phi, h, fwd[i].from)
			if v == nil {
				v = pv
			} else {
				v = e.iteValue(fwd[i].st.pc, pv, v)
			}
		}
		initVals[phi] = e.nameValue(v)
	}
	// havoc
	e.havoc(st, ms)
	var lkeys []string
	for a := range localsTouched {
		if key, ok := fr.localKey(a); ok {
			lkeys = append(lkeys, key)
		}
	}
	sort.Strings(lkeys)
	for _, key := range lkeys {
		e.havocLocal(st, key)
	}
	if e.ghostOn {
		hasCall := false
		for _, b := range sortedBlocks(body) {
			for _, in := range b.Instrs {
				switch in.(type) {
				case *ssa.Call, *ssa.Defer:
					hasCall = true
				}
			}
		}
		if hasCall {
			var gks []string
			for k := range st.heap {
				if strings.HasPrefix(k, "L$") {
					gks = append(gks, k)
				}
			}
			sort.Strings(gks)
			for _, k := range gks {
				st.heap[k] = e.fresh(st.heap[k].Sort, "g")
			}
		}
	}
	hv := map[*ssa.Phi]Value{}
	for _, phi := range phis {
		v := e.havocValue(phi.Type(), True, "phi_"+phi.Comment)
		hv[phi] = v
		fr.vals[phi] = v
	}
	// allocation counter only grows
	if ms.All || true {
		oldA := e.heapRead(pre, "$alloc", SInt)
		na := e.fresh(SInt, "alloc")
		e.emit("(assert (<= %s %s))", oldA.S, na.S)
		st.heap["$alloc"] = na
	}
	li := e.loopInvariants(fr, h, phis, initVals, body, c, pre, ms)
	if fr.loops == nil {
		fr.loops = map[*ssa.BasicBlock]*loopInfo{}
	}
	fr.loops[h] = li
	li.body = body
	for _, d := range li.decrPending {
		d.old = e.def(SInt, d.eval(hv, st))
		li.decr = append(li.decr, d)
	}
	li.hv = hv
	if c != nil {
		for _, k0 := range c.FullLoops {
			k, nth := k0, 0
			if i := strings.LastIndex(k0, "#"); i >= 0 {
				if _, err := fmt.Sscan(k0[i+1:], &nth); err == nil {
					k = k0[:i]
				} else {
					nth = 0
				}
			}
			if strings.Contains(li.key, k) || strings.Contains(loopKeyNamed(h), k) {
				if nth != 0 {
					// the n-th loop with this key, in block order of the function
					rank := 0
					for _, b := range fr.fn.Blocks {
						isHead := false
						for _, p := range b.Preds {
							if b.Dominates(p) {
								isHead = true
							}
						}
						if isHead && (strings.Contains(loopKey(b), k) || strings.Contains(loopKeyNamed(b), k)) {
							rank++
							if b == h {
								break
							}
						}
					}
					if rank != nth {
						continue
					}
				}
				k = k0
				li.noBreak = true
				e.usedLoopKeys["full:"+k] = true
				// with no early exit in the code the obligation is discharged structurally
				early := false
				for _, b := range sortedBlocks(body) {
					if b == h {
						continue
					}
					for _, sc := range b.Succs {
						if !body[sc] {
							early = true
						}
					}
				}
				if !early {
					e.oblige(st, "full-loop", li.key+":left-before-the-end", True, e.posOf(h.Instrs[0]))
				}
			}
		}
	}
	for _, inv := range li.invs {
		// inv-init on the pre-state with initial phi values
		g := inv.eval(initVals, pre)
		o := e.oblige(pre, "inv-init", fr.path+li.key+":"+inv.name, g, e.posOf(h.Instrs[0]))
		if o != nil && inv.cand {
			o.Cand = fr.path + li.key + ":" + inv.name
		}
		// assume at the (arbitrary-iteration) header
		e.assume(st.pc, inv.eval(hv, st))
	}
	return st
}

func (fr *Frame) localKey(a *ssa.Alloc) (string, bool) {
	for f := fr; f != nil; f = f.parent {
		if k, ok := f.locals[a]; ok {
			return k, true
		}
	}
	return "", false
}

// backEdge generates the inv-keep obligations when control returns to h.
func (e *Exec) backEdge(fr *Frame, from, h *ssa.BasicBlock, st *State) {
	li := fr.loops[h]
	if li == nil {
		return
	}
	vals := map[*ssa.Phi]Value{}
	for _, in := range h.Instrs {
		phi, ok := in.(*ssa.Phi)
		if !ok {
			break
		}
		vals[phi] = e.phiEdgeValue(fr, phi, h, from)
	}
	for _, sp := range li.steps {
		e.oblige(st, "step", fr.path+li.key+":"+sp.name, sp.eval(vals, li.hv, st, from.Instrs[len(from.Instrs)-1]), e.posOf(h.Instrs[0]))
	}
	for _, d := range li.decr {
		nv := d.eval(vals, st)
		e.oblige(st, "variant", fr.path+li.key+":"+d.name, And(Lt(nv, d.old), Le(IntLit(0), d.old)), e.posOf(h.Instrs[0]))
	}
	for _, inv := range li.invs {
		g := inv.eval(vals, st)
		o := e.oblige(st, "inv-keep", fr.path+li.key+":"+inv.name, g, e.posOf(h.Instrs[0]))
		if o != nil && inv.cand {
			o.Cand = fr.path + li.key + ":" + inv.name
		}
	}
}

// loopKey: structural key of a loop = rendering of the header's condition.
// loopKeyNamed: the same key rendered with source variable names (for matching contract text).
func loopKeyNamed(h *ssa.BasicBlock) string {
	for _, in := range h.Instrs {
		if iff, ok := in.(*ssa.If); ok {
			return "loop(" + RenderNamed(iff.Cond) + ")"
		}
	}
	return "loop(" + h.Comment + ")"
}

func loopKey(h *ssa.BasicBlock) string {
	for _, in := range h.Instrs {
		if iff, ok := in.(*ssa.If); ok {
			return "loop(" + render(iff.Cond, 0) + ")"
		}
	}
	// condition in a successor block (range loops): use the block comment
	return "loop(" + h.Comment + ")"
}

// loopInvariants proposes automatic (Houdini) candidates and adds the
// contract's invariants.
func (e *Exec) loopInvariants(fr *Frame, h *ssa.BasicBlock, phis []*ssa.Phi, initVals map[*ssa.Phi]Value, body map[*ssa.BasicBlock]bool, c *Contract, pre *State, ms *ModSet) *loopInfo {
	li := &loopInfo{header: h, key: loopKey(h)}
	fr.loopN++
	if os.Getenv("SLIPVC_DEBUG") == "loops" {
		fmt.Fprintf(os.Stderr, "loop in %s: key %q named %q\n", FuncName(fr.fn), li.key, loopKeyNamed(h))
	}
	add := func(name string, cand bool, ev func(map[*ssa.Phi]Value, *State) *Term) {
		full := fr.path + li.key + ":" + name
		if cand {
			if e.Opt.NoCands || e.Opt.Disabled[full] {
				return
			}
			e.Cands = append(e.Cands, full)
		}
		li.invs = append(li.invs, &loopInv{name: name, cand: cand, eval: ev})
	}
	for pi, phi := range phis {
		phi := phi
		if _, ok := intInfoOf(phi.Type()); !ok {
			continue
		}
		init, ok := initVals[phi].(*Term)
		if !ok {
			continue
		}
		pname := phi.Comment
		if pname == "" {
			pname = fmt.Sprintf("phi%d", pi)
		}
		// monotone candidates: phi >= init / phi <= init
		add(pname+">=init", true, func(v map[*ssa.Phi]Value, st *State) *Term { return Le(init, v[phi].(*Term)) })
		add(pname+"<=init", true, func(v map[*ssa.Phi]Value, st *State) *Term { return Le(v[phi].(*Term), init) })
		// bound candidates from comparisons inside the loop that involve phi (or phi+const)
		for _, b := range sortedBlocks(body) {
			for _, in := range b.Instrs {
				bo, ok := in.(*ssa.BinOp)
				if !ok {
					continue
				}
				switch bo.Op {
				case token.LSS, token.LEQ, token.GTR, token.GEQ:
				default:
					continue
				}
				var other ssa.Value
				var phiLeft bool
				var off int64
				if base, o, ok := phiPlusConst(bo.X, phi); ok && base {
					other, phiLeft, off = bo.Y, true, o
				} else if base, o, ok := phiPlusConst(bo.Y, phi); ok && base {
					other, phiLeft, off = bo.X, false, o
				} else {
					continue
				}
				if !loopInvariantValue(other, body) {
					continue
				}
				other2 := other
				off2 := off
				// phi+off <= other  and  phi+off >= other  (either may be inductive)
				_ = phiLeft
				nm := pname
				if off != 0 {
					nm = fmt.Sprintf("%s%+d", pname, off)
				}
				add(nm+"<="+render(other, 0), true, func(v map[*ssa.Phi]Value, st *State) *Term {
					return Le(Add(v[phi].(*Term), IntLit(off2)), e.invTerm(fr, st, other2))
				})
				add(nm+">="+render(other, 0), true, func(v map[*ssa.Phi]Value, st *State) *Term {
					return Le(e.invTerm(fr, st, other2), Add(v[phi].(*Term), IntLit(off2)))
				})
			}
		}
	}
	// ghost trace candidates (family T)
	if e.ghostOn {
		var cks []string
		for k, t := range pre.heap {
			if (strings.HasPrefix(k, "L$ncall_") || strings.HasPrefix(k, "L$nstore_")) && t != nil && t.Sort == SInt {
				cks = append(cks, k)
			}
		}
		sort.Strings(cks)
		for _, k := range cks {
			k := k
			add(k[1:]+"==pre", true, func(v map[*ssa.Phi]Value, st *State) *Term { return Eq(pre.heap[k], st.heap[k]) })
		}
	}
	if e.ghostOn && pre.heap[gExit] != nil {
		add("$no-exit", true, func(v map[*ssa.Phi]Value, st *State) *Term { return Not(st.heap[gExit]) })
		add("$no-xexit", true, func(v map[*ssa.Phi]Value, st *State) *Term { return Not(st.heap[gXexit]) })
		add("$exit==pre", true, func(v map[*ssa.Phi]Value, st *State) *Term { return Eq(pre.heap[gExit], st.heap[gExit]) })
		add("$n>=pre", true, func(v map[*ssa.Phi]Value, st *State) *Term { return Le(pre.heap[gN], st.heap[gN]) })
		add("$trace-prefix", true, func(v map[*ssa.Phi]Value, st *State) *Term {
			var cs []*Term
			for _, k := range []string{gEk, gEarr, gEslot, gEidx, gEobj, gEscope, gEres} {
				cs = append(cs, &Term{fmt.Sprintf("(forall ((k!p Int)) (! (=> (< k!p %s) (= (select %s k!p) (select %s k!p))) :pattern ((select %s k!p))))",
					pre.heap[gN].S, st.heap[k].S, pre.heap[k].S, st.heap[k].S), SBool})
			}
			return And(cs...)
		})
		add("$held==pre", true, func(v map[*ssa.Phi]Value, st *State) *Term { return Eq(pre.heap[gHeld], st.heap[gHeld]) })
		for pi, phi := range phis {
			phi := phi
			if _, ok := intInfoOf(phi.Type()); !ok {
				continue
			}
			pname := phi.Comment
			if pname == "" {
				pname = fmt.Sprintf("phi%d", pi)
			}
			add("$last<"+pname, true, func(v map[*ssa.Phi]Value, st *State) *Term { return Lt(st.heap[gLast], v[phi].(*Term)) })
			add("$last<="+pname, true, func(v map[*ssa.Phi]Value, st *State) *Term { return Le(st.heap[gLast], v[phi].(*Term)) })
		}
	}
	// append-only candidates: a byte buffer carried around the loop still starts with what the function's
	// buffer parameter held at entry
	if e.aoB0 != nil && fr.parent == nil {
		for pi, phi := range phis {
			phi := phi
			if !isByteSlice(phi.Type()) {
				continue
			}
			pname := phi.Comment
			if pname == "" {
				pname = fmt.Sprintf("phi%d", pi)
			}
			add(pname+":keeps-prefix", true, func(v map[*ssa.Phi]Value, st *State) *Term {
				t, ok := v[phi].(*Term)
				if !ok {
					return False
				}
				return aoPrefix(t, e.aoHeap(st), e.aoB0, e.aoH0)
			})
		}
	}
	// ownership candidates (family M): a slice / list object carried around the
	// loop is this activation's own allocation (or still its initial value)
	if e.Opt.NoArgWrite {
		for pi, phi := range phis {
			phi := phi
			init, ok := initVals[phi].(*Term)
			if !ok {
				continue
			}
			pname := phi.Comment
			if pname == "" {
				pname = fmt.Sprintf("phi%d", pi)
			}
			switch init.Sort {
			case SSl:
				add(pname+":own", true, func(v map[*ssa.Phi]Value, st *State) *Term {
					t := v[phi].(*Term)
					return Or(Eq(t, init), Le(e.heapRead(e.entry, "$alloc", SInt), App(SInt, "sl-id", t)), Eq(App(SInt, "sl-cap", t), IntLit(0)))
				})
			case SObj:
				add(pname+":own", true, func(v map[*ssa.Phi]Value, st *State) *Term {
					t := v[phi].(*Term)
					sl := App(SSl, "o-sl", t)
					lt := e.listTag()
					if lt == nil {
						return False
					}
					return Or(Eq(t, init), Implies(Eq(App(SInt, "o-tag", t), lt), Or(Le(e.heapRead(e.entry, "$alloc", SInt), App(SInt, "sl-id", sl)), Eq(App(SInt, "sl-len", sl), IntLit(0)))))
				})
			}
		}
	}
	// family O: a number carried around the loop is a value, or a math/big object of this activation
	if e.Opt.OperandsKept {
		tags := e.bigPtrTags()
		for pi, phi := range phis {
			phi := phi
			init, ok := initVals[phi].(*Term)
			if !ok || init.Sort != SObj || len(tags) == 0 {
				continue
			}
			pname := phi.Comment
			if pname == "" {
				pname = fmt.Sprintf("phi%d", pi)
			}
			add(pname+":own-number", true, func(v map[*ssa.Phi]Value, st *State) *Term {
				t := v[phi].(*Term)
				var isBig []*Term
				for _, tg := range tags {
					isBig = append(isBig, Eq(App(SInt, "o-tag", t), tg))
				}
				return Implies(Or(isBig...), e.mineTerm(App(SInt, "o-int", t)))
			})
		}
	}
	// a slice that grows by one element per iteration of a counting loop
	for pi, sp := range phis {
		sp := sp
		si, ok := initVals[sp].(*Term)
		if !ok || si.Sort != SSl {
			continue
		}
		sname := sp.Comment
		if sname == "" {
			sname = fmt.Sprintf("phi%d", pi)
		}
		for _, ip := range phis {
			ip := ip
			if _, ok := intInfoOf(ip.Type()); !ok || ip.Comment == "" {
				continue
			}
			ii, ok := initVals[ip].(*Term)
			if !ok {
				continue
			}
			add("len("+sname+")-"+ip.Comment+"==init", true, func(v map[*ssa.Phi]Value, st *State) *Term {
				return Eq(Sub(App(SInt, "sl-len", v[sp].(*Term)), v[ip].(*Term)), Sub(App(SInt, "sl-len", si), ii))
			})
		}
	}
	// pairs of integer phis: sum / difference is constant
	var ints []*ssa.Phi
	for _, phi := range phis {
		if _, ok := intInfoOf(phi.Type()); ok {
			if _, ok := initVals[phi].(*Term); ok {
				ints = append(ints, phi)
			}
		}
	}
	if len(ints) <= 4 {
		for i := 0; i < len(ints); i++ {
			for j := i + 1; j < len(ints); j++ {
				p, q := ints[i], ints[j]
				ip, iq := initVals[p].(*Term), initVals[q].(*Term)
				pn, qn := p.Comment, q.Comment
				if pn == "" || qn == "" {
					continue
				}
				add(pn+"+"+qn+"==init", true, func(v map[*ssa.Phi]Value, st *State) *Term {
					return Eq(Add(v[p].(*Term), v[q].(*Term)), Add(ip, iq))
				})
				add(pn+"-"+qn+"==init", true, func(v map[*ssa.Phi]Value, st *State) *Term {
					return Eq(Sub(v[p].(*Term), v[q].(*Term)), Sub(ip, iq))
				})
			}
		}
	}
	e.frameCandidates(fr, h, phis, initVals, body, pre, ms, add)
	e.contractLoopInvs(fr, h, li, phis, c, add)
	return li
}

func phiPlusConst(v ssa.Value, phi *ssa.Phi) (isBase bool, off int64, ok bool) {
	if v == phi {
		return true, 0, true
	}
	if bo, ok := v.(*ssa.BinOp); ok && (bo.Op == token.ADD || bo.Op == token.SUB) {
		if bo.X == phi {
			if c, ok := bo.Y.(*ssa.Const); ok && c.Value != nil {
				n := c.Int64()
				if bo.Op == token.SUB {
					n = -n
				}
				return true, n, true
			}
		}
	}
	return false, 0, false
}

func loopInvariantValue(v ssa.Value, body map[*ssa.BasicBlock]bool) bool {
	switch x := v.(type) {
	case *ssa.Const, *ssa.Parameter, *ssa.FreeVar:
		return true
	case *ssa.Call:
		if b, ok := x.Call.Value.(*ssa.Builtin); ok && (b.Name() == "len" || b.Name() == "cap") {
			if in, ok := v.(ssa.Instruction); ok && body[in.Block()] {
				return loopInvariantValue(x.Call.Args[0], body)
			}
			return true
		}
	}
	if in, ok := v.(ssa.Instruction); ok {
		return !body[in.Block()]
	}
	return false
}

func (e *Exec) posOf(in ssa.Instruction) string {
	p := in.Pos()
	if !p.IsValid() {
		// search the block for a positioned instruction
		for _, i2 := range in.Block().Instrs {
			if i2.Pos().IsValid() {
				p = i2.Pos()
				break
			}
		}
	}
	if !p.IsValid() {
		return ""
	}
	ps := e.P.SSA.Fset.Position(p)
	return fmt.Sprintf("%s:%d", strings.TrimPrefix(ps.Filename, e.P.RepoDir+"/"), ps.Line)
}

// invTerm evaluates a loop-invariant value (possibly a len/cap of one) at a
// point where the defining instruction may not have been executed yet.
func (e *Exec) invTerm(fr *Frame, st *State, v ssa.Value) *Term {
	if c, ok := v.(*ssa.Call); ok {
		if b, ok := c.Call.Value.(*ssa.Builtin); ok && (b.Name() == "len" || b.Name() == "cap") {
			a := e.invTerm(fr, st, c.Call.Args[0])
			switch c.Call.Args[0].Type().Underlying().(type) {
			case *types.Slice:
				if b.Name() == "len" {
					return App(SInt, "sl-len", a)
				}
				return App(SInt, "sl-cap", a)
			case *types.Basic:
				return App(SInt, "slen", a)
			}
		}
	}
	return e.asTerm(st, e.val(fr, v), v.Type())
}

// pureEval evaluates a side-effect-free SSA value in a given state even if
// its defining instruction (inside a loop) has not been executed: loads of
// fields that the loop does not modify, len/cap, arithmetic.
func (e *Exec) pureEval(fr *Frame, st *State, v ssa.Value, body map[*ssa.BasicBlock]bool, ms *ModSet, depth int) (Value, bool) {
	in, isInstr := v.(ssa.Instruction)
	if !isInstr || !body[in.Block()] {
		return e.val(fr, v), true
	}
	if depth > 6 {
		return nil, false
	}
	switch x := v.(type) {
	case *ssa.FieldAddr:
		base, ok := e.pureEval(fr, st, x.X, body, ms, depth+1)
		if !ok {
			return nil, false
		}
		stt := derefStruct(x.X.Type())
		if stt == nil {
			return nil, false
		}
		ft := stt.s.Field(x.Field).Type()
		_, fieldIsStruct := ft.Underlying().(*types.Struct)
		switch bv := base.(type) {
		case *Term:
			if fieldIsStruct {
				return e.embRef(stt.name, x.Field, bv), true
			}
			return &Loc{Kind: LField, Comp: fieldComp(stt.name, x.Field), Ref: bv, Type: ft}, true
		case *Loc:
			if bv.Kind == LLocal {
				return &Loc{Kind: LLocal, Key: fmt.Sprintf("%s.%d", bv.Key, x.Field), Type: ft}, true
			}
		}
		return nil, false
	case *ssa.UnOp:
		if x.Op != token.MUL {
			return nil, false
		}
		addr, ok := e.pureEval(fr, st, x.X, body, ms, depth+1)
		if !ok {
			return nil, false
		}
		loc, ok := addr.(*Loc)
		if !ok {
			return nil, false
		}
		if loc.Kind == LField && (ms.All || ms.Comps[loc.Comp]) {
			return nil, false
		}
		if loc.Kind == LLocal {
			return nil, false
		}
		if sortOf(x.Type()) == structSort {
			return nil, false
		}
		h := e.heapRead(st, loc.Comp, ArrSort(sortOf(x.Type())))
		return Select(h, loc.Ref), true
	case *ssa.Call:
		if b, ok := x.Call.Value.(*ssa.Builtin); ok && (b.Name() == "len" || b.Name() == "cap") {
			a, ok := e.pureEval(fr, st, x.Call.Args[0], body, ms, depth+1)
			if !ok {
				return nil, false
			}
			at, ok := a.(*Term)
			if !ok {
				return nil, false
			}
			if at.Sort == SSl {
				if b.Name() == "len" {
					return App(SInt, "sl-len", at), true
				}
				return App(SInt, "sl-cap", at), true
			}
			if isString(x.Call.Args[0].Type()) {
				return App(SInt, "slen", at), true
			}
		}
	}
	return nil, false
}

// frameCandidates: for an array component that the loop writes only through
// X[phi+c] with X fixed, propose "everything outside the written index range
// is as before the loop" (both directions; Houdini keeps what is inductive).
func (e *Exec) frameCandidates(fr *Frame, h *ssa.BasicBlock, phis []*ssa.Phi, initVals map[*ssa.Phi]Value, body map[*ssa.BasicBlock]bool, pre *State, ms *ModSet, add func(string, bool, func(map[*ssa.Phi]Value, *State) *Term)) {
	if c := e.contractOf(e.Root); c != nil && c.Options["frame-arrays"] && !ms.All && fr.parent == nil {
		// frame condition under proof: the arrays that existed at entry keep their entry contents
		var ks []string
		for k := range ms.Comps {
			if strings.HasPrefix(k, "A_") && arrCompSort(k) != "" {
				ks = append(ks, k)
			}
		}
		sort.Strings(ks)
		for _, k := range ks {
			k := k
			add("entry-rows:"+k, true, func(v map[*ssa.Phi]Value, st *State) *Term {
				es := arrCompSort(k)
				return e.frameRows(e.heapRead(st, k, ArrSort(ArrSort(es))), e.heapRead(e.entry, k, ArrSort(ArrSort(es))), e.heapRead(e.entry, "$alloc", SInt))
			})
		}
	}
	if ms.All {
		return
	}
	type st1 struct {
		x   ssa.Value
		phi *ssa.Phi
		off int64
		es  string
	}
	stores := map[string][]st1{}
	bad := map[string]bool{}
	for _, b := range sortedBlocks(body) {
		for _, in := range b.Instrs {
			switch x := in.(type) {
			case *ssa.Store:
				ia, ok := x.Addr.(*ssa.IndexAddr)
				if !ok {
					if c := e.P.compForAddr(x.Addr); strings.HasPrefix(c, "A_") {
						bad[c] = true
					}
					continue
				}
				sl, ok := ia.X.Type().Underlying().(*types.Slice)
				if !ok {
					continue
				}
				es := sortOf(sl.Elem())
				comp := arrComp(sl.Elem())
				found := false
				for _, phi := range phis {
					if base, off, ok := phiPlusConst(ia.Index, phi); ok && base {
						stores[comp] = append(stores[comp], st1{ia.X, phi, off, es})
						found = true
						break
					}
				}
				if !found {
					bad[comp] = true
				}
			case *ssa.Call:
				m := &ModSet{Comps: map[string]bool{}}
				e.P.InstrMods(in, m)
				for c := range m.Comps {
					if strings.HasPrefix(c, "A_") {
						bad[c] = true
					}
				}
			}
		}
	}
	var comps []string
	for comp := range stores {
		comps = append(comps, comp)
	}
	sort.Strings(comps)
	for _, comp := range comps {
		list := stores[comp]
		if bad[comp] || len(list) != 1 {
			continue
		}
		s0 := list[0]
		init, ok := initVals[s0.phi].(*Term)
		if !ok {
			continue
		}
		comp := comp
		mk := func(up bool) func(map[*ssa.Phi]Value, *State) *Term {
			return func(v map[*ssa.Phi]Value, st *State) *Term {
				xv, ok := e.pureEval(fr, st, s0.x, body, ms, 0)
				xt, isT := xv.(*Term)
				if !ok || !isT {
					return False
				}
				H := e.heapRead(st, comp, ArrSort(ArrSort(s0.es)))
				Hp := e.heapRead(pre, comp, ArrSort(ArrSort(s0.es)))
				id := App(SInt, "sl-id", xt)
				bound := Add(App(SInt, "sl-off", xt), Add(init, IntLit(s0.off)))
				rel := "<"
				if !up {
					rel = ">"
				}
				q := fmt.Sprintf("(forall ((j!f Int)) (! (=> (%s j!f %s) (= (select (select %s %s) j!f) (select (select %s %s) j!f))) :pattern ((select (select %s %s) j!f))))",
					rel, bound.S, H.S, id.S, Hp.S, id.S, H.S, id.S)
				other := fmt.Sprintf("(= %s (store %s %s (select %s %s)))", H.S, Hp.S, id.S, H.S, id.S)
				return &Term{"(and " + other + " " + q + ")", SBool}
			}
		}
		add("frame-up:"+comp, true, mk(true))
		add("frame-down:"+comp, true, mk(false))
	}
}

// mergeExact: exact value of a phi = merge of the exact values of its edges.
func (e *Exec) mergeExact(fr *Frame, phi *ssa.Phi, b *ssa.BasicBlock, ins []edge) {
	if _, ok := intInfoOf(phi.Type()); !ok {
		return
	}
	any := false
	var m *Term
	for i := len(ins) - 1; i >= 0; i-- {
		var ev ssa.Value
		for k, p := range b.Preds {
			if p == ins[i].from {
				ev = phi.Edges[k]
			}
		}
		if ev == nil {
			return
		}
		mt, ok := e.val(fr, ev).(*Term)
		if !ok {
			return
		}
		ex := e.exOf(fr, ev, mt)
		if ex.S != mt.S {
			any = true
		}
		if m == nil {
			m = ex
		} else {
			m = Ite(ins[i].st.pc, ex, m)
		}
	}
	if any && m != nil {
		e.setExact(fr, phi, m)
	}
}

// bigPtrTags: type tags of *slip.Bignum, *slip.Ratio, *slip.LongFloat.
func (e *Exec) bigPtrTags() []*Term {
	sp := e.P.SPkgs[ModPath]
	if sp == nil {
		return nil
	}
	var out []*Term
	for _, n := range []string{"Bignum", "Ratio", "LongFloat"} {
		if o := sp.Pkg.Scope().Lookup(n); o != nil {
			out = append(out, IntLit(int64(e.tag(types.NewPointer(o.Type())))))
		}
	}
	return out
}

func (e *Exec) listTag() *Term {
	sp := e.P.SPkgs[ModPath]
	if sp == nil {
		return nil
	}
	lt := sp.Pkg.Scope().Lookup("List")
	if lt == nil {
		return nil
	}
	return IntLit(int64(e.tag(lt.Type())))
}

// lemmas: state-independent obligations of a contract block.
func (e *Exec) lemmas(fr *Frame, st *State, c *Contract) {
	for _, lm := range c.Lemmas {
		if lm.Var == "" {
			en := e.newEnv(fr, st, st)
			e.oblige(st, "lemma", lm.Label, e.evalClause(en, &Clause{Text: lm.Text, Expr: lm.Expr}), "")
			continue
		}
		for v := lm.Lo; v <= lm.Hi; v++ {
			en := e.newEnv(fr, st, st)
			en.vars[lm.Var] = ev{IntLit(int64(v)), nil}
			e.oblige(st, "lemma", fmt.Sprintf("%s[%d]", lm.Label, v), e.evalClause(en, &Clause{Text: lm.Text, Expr: lm.Expr}), "")
		}
	}
}

// mustDefer: structural obligation — the named callee is registered with
// defer (directly or inside a deferred closure of this function) and is never
// called on the normal path only; this is what makes a release / cleanup run
// on a panicking exit, which the executor does not explore.
func (e *Exec) mustDefer(fn *ssa.Function, st *State, c *Contract) {
	for _, name := range c.MustDefer {
		deferred, plain := 0, 0
		var scan func(f *ssa.Function, inDefer bool)
		scan = func(f *ssa.Function, inDefer bool) {
			for _, b := range f.Blocks {
				for _, in := range b.Instrs {
					switch x := in.(type) {
					case *ssa.Defer:
						if calleeName(&x.Call) == name {
							deferred++
						}
						if mc, ok := x.Call.Value.(*ssa.MakeClosure); ok {
							if cf, ok := mc.Fn.(*ssa.Function); ok {
								scan(cf, true)
							}
						}
					case *ssa.Call:
						if calleeName(&x.Call) == name {
							if inDefer {
								deferred++
							} else {
								plain++
							}
						}
					}
				}
			}
		}
		scan(fn, false)
		g := True
		if deferred == 0 || plain > 0 {
			g = False
		}
		e.oblige(st, "must-defer", name, g, "")
	}
}
