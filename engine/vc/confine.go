package vc

import (
	"fmt"
	"go/types"
	"strings"

	"golang.org/x/tools/go/ssa"
)

// confine implements the `confine <param> [to callee...]` and `on-slice <param>` clauses (root frame only).
//
// A confined parameter is a slice whose contents the function may only look at through the listed callees
// (which have their own contracts) and through `range` (the current element). Every other use — an index
// expression, a slice expression that no on-slice clause covers, append/copy/conversion, storing or
// returning it, handing it to another function — is an obligation "unreachable" (Not(pc)) at that
// instruction, so a use on a dead path is accepted and a live one is reported with its path condition.
func (e *Exec) confine(fr *Frame, st *State, in ssa.Instruction, c *Contract) {
	if c == nil || fr.parent != nil || (len(c.Confines) == 0 && len(c.OnSlices) == 0) {
		return
	}
	if _, ok := in.(*ssa.DebugRef); ok {
		return
	}
	param := func(name string) *ssa.Parameter {
		for _, p := range fr.fn.Params {
			if p.Name() == name {
				return p
			}
		}
		return nil
	}
	// on-slice clauses
	if sx, ok := in.(*ssa.Slice); ok {
		for i, os := range c.OnSlices {
			p := param(os.Field)
			if p == nil || sx.X != ssa.Value(p) {
				continue
			}
			sl := e.term(fr, st, sx.X)
			lo, hi := IntLit(0), App(SInt, "sl-len", sl)
			if sx.Low != nil {
				lo = e.term(fr, st, sx.Low)
			}
			if sx.High != nil {
				hi = e.term(fr, st, sx.High)
			}
			en := e.newEnv(fr, st, e.entry)
			en.point = in
			it := types.Typ[types.Int]
			en.vars["$lo"] = ev{lo, it}
			en.vars["$hi"] = ev{hi, it}
			lbl := os.Label
			if lbl == "" {
				lbl = fmt.Sprint(i + 1)
			}
			g, applies := e.tryClause(en, os.Text, os.Expr)
			if !applies {
				continue
			}
			e.clauseUsed["slice:"+os.Field+":"+lbl]++
			e.oblige(st, "on-slice", os.Field+":"+lbl, g, e.posOf(in))
		}
	}
	for _, cf := range c.Confines {
		p := param(cf.Param)
		if p == nil {
			continue
		}
		uses := false
		for _, op := range in.Operands(nil) {
			if op != nil && *op == ssa.Value(p) {
				uses = true
			}
		}
		if !uses {
			continue
		}
		what := ""
		switch x := in.(type) {
		case *ssa.IndexAddr:
			if x.X == ssa.Value(p) && isRangeElement(x) {
				continue
			}
			what = "index"
		case *ssa.Index:
			what = "index"
		case *ssa.Slice:
			covered := false
			for _, os := range c.OnSlices {
				if os.Field == cf.Param {
					covered = true
				}
			}
			if covered {
				continue
			}
			what = "slice"
		case *ssa.Call:
			if b, ok := x.Call.Value.(*ssa.Builtin); ok && (b.Name() == "len" || b.Name() == "cap") {
				continue
			}
			name := ""
			if callee := x.Call.StaticCallee(); callee != nil {
				name = callee.Name()
			} else if x.Call.Method != nil {
				name = x.Call.Method.Name()
			} else if b, ok := x.Call.Value.(*ssa.Builtin); ok {
				name = b.Name()
			}
			allowed := false
			for _, t := range cf.To {
				if t == name {
					allowed = true
				}
			}
			if allowed {
				continue
			}
			what = "passed-to-" + name
		case *ssa.Phi:
			what = "flows"
		default:
			what = strings.ToLower(strings.TrimPrefix(fmt.Sprintf("%T", in), "*ssa."))
		}
		e.confineHit[cf.Param] = true
		e.oblige(st, "confine", cf.Param+":"+what, Not(st.pc), e.posOf(in))
	}
}

// isRangeElement: x is the element read of a `for i, v := range s` loop (index = the loop's induction value).
func isRangeElement(x *ssa.IndexAddr) bool {
	if x.Block() == nil || !strings.HasPrefix(x.Block().Comment, "rangeindex.body") {
		return false
	}
	if iv, ok := x.Index.(ssa.Instruction); ok && iv.Block() != nil {
		return strings.HasPrefix(iv.Block().Comment, "rangeindex.loop")
	}
	return false
}

// confineDone: a confine clause that met no forbidden use is discharged structurally; on-slice clauses must apply somewhere.
func (e *Exec) confineDone(fn *ssa.Function, c *Contract) error {
	for i, os := range c.OnSlices {
		lbl := os.Label
		if lbl == "" {
			lbl = fmt.Sprint(i + 1)
		}
		if e.clauseUsed["slice:"+os.Field+":"+lbl] == 0 {
			return fmt.Errorf("out of subset: on-slice clause %s:%s applies at no slice expression of %s", os.Field, lbl, FuncName(fn))
		}
	}
	for _, nd := range c.NoMapDeletes {
		if !e.confineHit["nomapdel:"+nd] {
			e.curFr, e.curIn = nil, nil
			e.oblige(&State{pc: True, heap: map[string]*Term{}}, "no-map-delete", nd, True, "")
		}
	}
	for _, cf := range c.Confines {
		found := false
		for _, p := range fn.Params {
			if p.Name() == cf.Param {
				found = true
			}
		}
		if !found {
			return fmt.Errorf("out of subset: confine %s: %s has no such parameter", cf.Param, FuncName(fn))
		}
		if !e.confineHit[cf.Param] {
			e.curFr, e.curIn = nil, nil
			e.oblige(&State{pc: True, heap: map[string]*Term{}}, "confine", cf.Param, True, "")
		}
	}
	return nil
}

// afterLoops decides the after-loop clauses on the control-flow graph.
func (e *Exec) afterLoops(fn *ssa.Function, c *Contract) error {
	for _, al := range c.AfterLoops {
		// loop headers whose key matches, in block order
		var heads []*ssa.BasicBlock
		for _, h := range fn.Blocks {
			isHead := false
			for _, p := range h.Preds {
				if h.Dominates(p) {
					isHead = true
				}
			}
			if isHead && (strings.Contains(loopKey(h), al.LoopKey) || strings.Contains(loopKeyNamed(h), al.LoopKey)) {
				heads = append(heads, h)
			}
		}
		if al.Nth < 1 || al.Nth > len(heads) {
			return fmt.Errorf("out of subset: after-loop %s %s#%d: %s has %d such loops", al.Callee, al.LoopKey, al.Nth, FuncName(fn), len(heads))
		}
		h := heads[al.Nth-1]
		// natural loop of h
		body := map[*ssa.BasicBlock]bool{h: true}
		var stack []*ssa.BasicBlock
		for _, p := range h.Preds {
			if h.Dominates(p) && !body[p] {
				body[p] = true
				stack = append(stack, p)
			}
		}
		for len(stack) > 0 {
			b := stack[len(stack)-1]
			stack = stack[:len(stack)-1]
			for _, p := range b.Preds {
				if !body[p] {
					body[p] = true
					stack = append(stack, p)
				}
			}
		}
		// the exit taken by the loop's own test: for range loops the test sits in the header, for `for` loops too
		var exits []*ssa.BasicBlock
		for _, sc := range h.Succs {
			if !body[sc] {
				exits = append(exits, sc)
			}
		}
		n := 0
		for _, b := range fn.Blocks {
			for _, in := range b.Instrs {
				ci, ok := in.(ssa.CallInstruction)
				if !ok {
					continue
				}
				name := ""
				if cal := ci.Common().StaticCallee(); cal != nil {
					name = cal.Name()
				} else if ci.Common().Method != nil {
					name = ci.Common().Method.Name()
				}
				if name != al.Callee {
					continue
				}
				n++
				ok2 := false
				for _, x := range exits {
					if x == b || x.Dominates(b) {
						ok2 = true
					}
				}
				e.curFr, e.curIn = nil, nil
				g := True
				if !ok2 {
					g = False
				}
				e.oblige(&State{pc: True, heap: map[string]*Term{}}, "after-loop", fmt.Sprintf("%s#%d:%s#%d", al.Callee, n, al.LoopKey, al.Nth), g, e.posOf(in))
			}
		}
		if n == 0 {
			return fmt.Errorf("out of subset: after-loop %s: no call of %s in %s", al.Callee, al.Callee, FuncName(fn))
		}
	}
	return nil
}
