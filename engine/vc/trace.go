package vc

import (
	"strings"
	"fmt"
	"go/types"

	"golang.org/x/tools/go/ssa"
)

// Family T: ghost evaluation trace. Every evaluation of a Lisp form performed
// by the function under contract (slip.EvalArg, Scope.Eval, Object.Eval,
// Caller.Call) appends one event to ghost arrays:
//
//	$ek[k]     kind: 1 EvalArg, 2 Scope.Eval, 3 obj.Eval (dynamic), 4 caller.Call (dynamic)
//	$earr[k]   backing-array id of the argument list whose slot is evaluated (kind 1)
//	$eslot[k]  index relative to the function's own args (kind 1 on args), else -1
//	$eidx[k]   index passed to EvalArg (kind 1)
//	$eobj[k]   the object evaluated / called
//	$escope[k] the scope it is evaluated in
//	$eres[k]   the result (an arbitrary object)
//	$n         number of events; $last = last relative slot evaluated (-1 none)
//	$exit / $exitval: an unconsumed non-local exit marker was returned by an event
//
// The evaluated code is arbitrary: every event forgets the whole heap.

const (
	gN, gLast, gExit, gExitVal    = "L$n", "L$last", "L$exit", "L$exitval"
	gEk, gEarr, gEslot, gEidx     = "L$ek", "L$earr", "L$eslot", "L$eidx"
	gEobj, gEscope, gEres, gHeld  = "L$eobj", "L$escope", "L$eres", "L$held"
	gLocked                       = "L$locked"
	gXexit, gXexitVal             = "L$xexit", "L$xexitval"
	gNunlock                      = "L$nunlock"
)

type AtEval struct {
	Label string
	Cond  Expr
	Body  Expr
	Text  string
}

type TraceHook struct {
	EvalOnce     bool // O1: slots of the own args are evaluated in strictly increasing order
	ForwardExits bool // O2/O3: nothing is evaluated after an unconsumed exit marker, and it is returned
	ConsumesReturn bool // the form consumes return markers itself (block, dolist, ...): no exit-forwarded obligation
	ForwardBodyExits bool // same, but only for markers returned by forms of the own argument list
	LockBalance  bool // every sync lock taken by the function is released again on every return path
	AtEvals      []*AtEval
	exitTags     []int
	applied      map[*AtEval]int
}

func (e *Exec) ghostInit() map[string]*Term {
	ai := ArrSort(SInt)
	ao := ArrSort(SObj)
	return map[string]*Term{
		gN: IntLit(0), gLast: IntLit(-1), gExit: False, gExitVal: {"nil-obj", SObj},
		gEk: e.fresh(ai, "ek"), gEarr: e.fresh(ai, "earr"), gEslot: e.fresh(ai, "eslot"), gEidx: e.fresh(ai, "eidx"),
		gEobj: e.fresh(ao, "eobj"), gEscope: e.fresh(ai, "escope"), gEres: e.fresh(ao, "eres"),
		gHeld: IntLit(0), gNunlock: IntLit(0), gXexit: False, gXexitVal: {"nil-obj", SObj},
	}
}

func (e *Exec) exitTags() []int {
	var out []int
	if sp := e.P.SPkgs[ModPath]; sp != nil {
		if o := sp.Pkg.Scope().Lookup("ReturnResult"); o != nil {
			out = append(out, e.tag(types.NewPointer(o.Type())))
		}
	}
	if sp := e.P.SPkgs[ModPath+"/pkg/cl"]; sp != nil {
		if o := sp.Pkg.Scope().Lookup("GoTo"); o != nil {
			out = append(out, e.tag(types.NewPointer(o.Type())))
		}
	}
	return out
}

func (e *Exec) isExit(o *Term) *Term {
	var ds []*Term
	for _, t := range e.exitTags() {
		ds = append(ds, Eq(App(SInt, "o-tag", o), IntLit(int64(t))))
	}
	return Or(ds...)
}

func isScopePtr(t types.Type) bool {
	p, ok := t.(*types.Pointer)
	if !ok {
		return false
	}
	n, ok := p.Elem().(*types.Named)
	return ok && n.Obj().Name() == "Scope" && n.Obj().Pkg() != nil && n.Obj().Pkg().Path() == ModPath
}

// Call implements Hook: recognises evaluation calls.
func (h *TraceHook) Call(e *Exec, fr *Frame, st *State, c *ssa.CallCommon, instr ssa.Instruction) (bool, Value) {
	kind := 0
	var scope, obj, idx, arr *Term
	callee := c.StaticCallee()
	switch {
	case callee != nil && callee.Name() == "EvalArg" && callee.Pkg != nil && callee.Pkg.Pkg.Path() == ModPath && len(c.Args) == 4:
		kind = 1
		scope = e.term(fr, st, c.Args[0])
		args := e.term(fr, st, c.Args[1])
		idx = e.term(fr, st, c.Args[2])
		inb := And(Le(IntLit(0), idx), Lt(idx, App(SInt, "sl-len", args)))
		e.oblige(st, "safe:index", "EvalArg("+render(c.Args[1], 0)+","+render(c.Args[2], 0)+")", inb, e.posOf(instr), App(SInt, "sl-len", args), idx)
		e.assume(st.pc, inb)
		arr = App(SInt, "sl-id", args)
		hh := e.heapRead(st, "A_Obj", ArrSort(ArrSort(SObj)))
		obj = e.def(SObj, Select(Select(hh, arr), Add(App(SInt, "sl-off", args), idx)))
	case callee != nil && callee.Name() == "Eval" && callee.Signature.Recv() != nil && isScopePtr(callee.Signature.Recv().Type()) && len(c.Args) == 3:
		kind = 2
		scope = e.term(fr, st, c.Args[0])
		obj = e.term(fr, st, c.Args[1])
	case callee == nil && c.Method != nil && c.Method.Name() == "Eval" && len(c.Args) == 2 && isScopePtr(c.Args[0].Type()):
		kind = 3
		obj = e.term(fr, st, c.Value)
		scope = e.term(fr, st, c.Args[0])
	case callee == nil && c.Method != nil && c.Method.Name() == "Call" && len(c.Args) == 3 && isScopePtr(c.Args[0].Type()):
		kind = 4
		obj = e.term(fr, st, c.Value)
		scope = e.term(fr, st, c.Args[0])
	default:
		return h.lockCall(e, fr, st, c, instr)
	}
	n := st.heap[gN]
	// relative slot when the list is the function's own args
	slot := IntLit(-1)
	if kind == 1 {
		// "own argument list" is decided syntactically: the list passed to EvalArg is the
		// function's args parameter or a re-slice of it
		if e.rootArgs != nil && (fr.parent == nil || (fr.fn.Parent() == e.Root && strings.HasSuffix(fr.path, "defer>"))) && derivesFromArgs(c.Args[1]) {
			args := e.term(fr, st, c.Args[1])
			slot = e.def(SInt, Sub(Add(App(SInt, "sl-off", args), idx), App(SInt, "sl-off", e.rootArgs)))
		}
	} else {
		idx = IntLit(-1)
		arr = IntLit(0)
	}
	// program-point assertions
	for i, ae := range h.AtEvals {
		en := e.newEnv(e.rootFrame(fr), st, e.entry)
		if fr.parent == nil {
			en.point = instr
		}
		en.vars["$slot"] = ev{slot, nil}
		en.vars["$obj"] = ev{obj, nil}
		en.vars["$scope"] = ev{scope, nil}
		en.vars["$kind"] = ev{IntLit(int64(kind)), nil}
		if fr.parent != nil && !strings.HasSuffix(fr.path, "defer>") {
			en.vars["$inlined"] = ev{True, nil} // the event happens inside an inlined callee, not in the function's own text
		} else {
			en.vars["$inlined"] = ev{False, nil}
		}
		if strings.HasSuffix(fr.path, "defer>") {
			en.vars["$deferred"] = ev{True, nil}
		} else {
			en.vars["$deferred"] = ev{False, nil}
		}
		cond, body, ok := e.tryAtEval(en, ae)
		if !ok {
			continue // a name of the clause is not in use at this program point
		}
		if h.applied == nil {
			h.applied = map[*AtEval]int{}
		}
		h.applied[ae]++
		lbl := ae.Label
		if lbl == "" {
			lbl = fmt.Sprint(i + 1)
		}
		e.oblige(st, "at-eval", lbl, Implies(cond, body), e.posOf(instr))
	}
	if h.EvalOnce && kind == 1 {
		e.oblige(st, "trace", "order:"+render(c.Args[2], 0), Implies(Le(IntLit(0), slot), Lt(st.heap[gLast], slot)), e.posOf(instr), st.heap[gLast], slot)
	}
	if h.ForwardExits || h.ForwardBodyExits {
		nm := "defer"
		if v, ok := instr.(ssa.Value); ok {
			nm = render(v, 0)
		}
		pend := st.heap[gExit]
		if h.ForwardExits {
			pend = Or(pend, st.heap[gXexit])
		}
		e.oblige(st, "trace", "no-eval-after-exit:"+nm, Not(pend), e.posOf(instr))
	}
	// the scope's structural flags are not changed by evaluating code in it (assumption)
	keep := map[string]*Term{}
	for _, comp := range e.preservedComps() {
		if t, ok := st.heap[comp]; ok && t != nil && t.S != "" {
			keep[comp] = t
		} else {
			keep[comp] = e.heapRead(st, comp, e.preservedSort(comp))
		}
	}
	// the evaluation itself: arbitrary code
	e.argsEscape(fr, st, c)
	e.newEpoch(st)
	for comp, t := range keep {
		st.heap[comp] = t
	}
	res := e.fresh(SObj, "evres")
	e.emit("(assert (<= 0 (o-tag %s)))", res.S)
	// exit markers are real objects (never typed-nil pointers)
	e.assume(True, Implies(e.isExit(res), Not(Eq(App(SInt, "o-int", res), IntLit(0)))))
	st.heap[gEk] = e.def(ArrSort(SInt), Store(st.heap[gEk], n, IntLit(int64(kind))))
	st.heap[gEarr] = e.def(ArrSort(SInt), Store(st.heap[gEarr], n, arr))
	st.heap[gEslot] = e.def(ArrSort(SInt), Store(st.heap[gEslot], n, slot))
	st.heap[gEidx] = e.def(ArrSort(SInt), Store(st.heap[gEidx], n, idx))
	st.heap[gEobj] = e.def(ArrSort(SObj), Store(st.heap[gEobj], n, obj))
	st.heap[gEscope] = e.def(ArrSort(SInt), Store(st.heap[gEscope], n, scope))
	st.heap[gEres] = e.def(ArrSort(SObj), Store(st.heap[gEres], n, res))
	st.heap[gN] = e.def(SInt, Add(n, IntLit(1)))
	st.heap[gLast] = e.def(SInt, Ite(Le(IntLit(0), slot), slot, st.heap[gLast]))
	isx := e.def(SBool, e.isExit(res))
	own := e.def(SBool, Le(IntLit(0), slot))
	st.heap[gExitVal] = e.def(SObj, Ite(And(isx, own), res, st.heap[gExitVal]))
	st.heap[gExit] = e.def(SBool, Or(st.heap[gExit], And(isx, own)))
	st.heap[gXexitVal] = e.def(SObj, Ite(And(isx, Not(own)), res, st.heap[gXexitVal]))
	st.heap[gXexit] = e.def(SBool, Or(st.heap[gXexit], And(isx, Not(own))))
	return true, res
}

func (e *Exec) rootFrame(fr *Frame) *Frame {
	for fr.parent != nil {
		fr = fr.parent
	}
	return fr
}

// lockCall: sync.Mutex Lock/Unlock keep a ghost balance ($held) and, for one
// mutex, a ghost flag.
func (h *TraceHook) lockCall(e *Exec, fr *Frame, st *State, c *ssa.CallCommon, instr ssa.Instruction) (bool, Value) {
	callee := c.StaticCallee()
	if callee == nil || callee.Pkg == nil || callee.Pkg.Pkg.Path() != "sync" {
		return false, nil
	}
	switch callee.Name() {
	case "Lock", "RLock":
		st.heap[gHeld] = e.def(SInt, Add(st.heap[gHeld], IntLit(1)))
		return true, nil
	case "Unlock", "RUnlock":
		st.heap[gHeld] = e.def(SInt, Sub(st.heap[gHeld], IntLit(1)))
		st.heap[gNunlock] = e.def(SInt, Add(st.heap[gNunlock], IntLit(1)))
		return true, nil
	case "TryLock":
		ok := e.fresh(SBool, "trylock")
		st.heap[gHeld] = e.def(SInt, Add(st.heap[gHeld], Ite(ok, IntLit(1), IntLit(0))))
		return true, ok
	}
	return false, nil
}

// TraceReturn: obligations at every normal return.
func (h *TraceHook) atReturn(e *Exec, fr *Frame, st *State, res []Value) {
	if h.LockBalance {
		e.retN3++
		e.oblige(st, "trace", fmt.Sprintf("locks-released-ret%d", e.retN3), Eq(st.heap[gHeld], IntLit(0)), "")
	}
	if (h.ForwardExits || h.ForwardBodyExits) && !h.ConsumesReturn && len(res) == 1 {
		if r, ok := res[0].(*Term); ok && r.Sort == SObj {
			e.retN2++
			g := Implies(st.heap[gExit], Eq(r, st.heap[gExitVal]))
			if h.ForwardExits {
				g = And(g, Implies(st.heap[gXexit], Eq(r, st.heap[gXexitVal])))
			}
			e.oblige(st, "trace", fmt.Sprintf("exit-forwarded-ret%d", e.retN2), g, "")
		}
	}
}

// InstallTrace sets up the ghost trace for a run.
func InstallTrace(e *Exec, h *TraceHook) {
	e.hooks = append(e.hooks, h)
	e.retHooks = append(e.retHooks, h.atReturn)
	if e.InitHeap == nil {
		e.InitHeap = map[string]*Term{}
	}
	for k, v := range e.ghostInit() {
		e.InitHeap[k] = v
	}
	e.ghostFuncs["is_exit"] = func(en *evalEnv, args []ev) ev {
		return ev{e.isExit(args[0].v.(*Term)), nil}
	}
	e.ghostFuncs["truthy"] = func(en *evalEnv, args []ev) ev {
		// Lisp truth of an evaluation result as EvalArg reports it: non-nil
		return ev{Not(Eq(App(SInt, "o-tag", args[0].v.(*Term)), IntLit(0))), nil}
	}
}

// preservedComps: Scope.Name / Block / TagBody are treated as unchanged by the
// evaluation of code (listed assumption).
func (e *Exec) preservedComps() []string {
	sp := e.P.SPkgs[ModPath]
	if sp == nil {
		return nil
	}
	o := sp.Pkg.Scope().Lookup("Scope")
	if o == nil {
		return nil
	}
	st, ok := o.Type().Underlying().(*types.Struct)
	if !ok {
		return nil
	}
	var out []string
	e.presSorts = map[string]string{}
	for i := 0; i < st.NumFields(); i++ {
		switch st.Field(i).Name() {
		case "Name", "Block", "TagBody", "parents":
			c := fieldComp(structName(o.Type()), i)
			out = append(out, c)
			e.presSorts[c] = ArrSort(sortOf(st.Field(i).Type()))
		}
	}
	return out
}

func (e *Exec) preservedSort(comp string) string { return e.presSorts[comp] }

func derivesFromArgs(v ssa.Value) bool {
	for i := 0; i < 8; i++ {
		switch x := v.(type) {
		case *ssa.Parameter:
			return x.Name() == "args"
		case *ssa.FreeVar:
			return x.Name() == "args"
		case *ssa.UnOp:
			v = x.X
		case *ssa.Alloc:
			return x.Comment == "args"
		case *ssa.Slice:
			v = x.X
		case *ssa.ChangeType:
			v = x.X
		default:
			return false
		}
	}
	return false
}

func (e *Exec) tryAtEval(en *evalEnv, ae *AtEval) (cond, body *Term, ok bool) {
	defer func() {
		if r := recover(); r != nil {
			if u, isU := r.(unsupported); isU && strings.Contains(u.msg, "unknown identifier") {
				ok = false
				return
			}
			panic(r)
		}
	}()
	cond = e.evalClause(en, &Clause{Text: ae.Text, Expr: ae.Cond})
	body = e.evalClause(en, &Clause{Text: ae.Text, Expr: ae.Body})
	return cond, body, true
}

// unusedAtEvals: clauses that applied at no program point (probably a misspelt name).
func (h *TraceHook) unusedAtEvals() []string {
	var out []string
	for _, ae := range h.AtEvals {
		if h.applied[ae] == 0 {
			out = append(out, ae.Label+": "+ae.Text)
		}
	}
	return out
}

// tryClause evaluates a program-point clause; ok=false when one of its names is not in use at this point.
func (e *Exec) tryClause(en *evalEnv, text string, x Expr) (t *Term, ok bool) {
	defer func() {
		if r := recover(); r != nil {
			if u, isU := r.(unsupported); isU && strings.Contains(u.msg, "unknown identifier") {
				ok = false
				return
			}
			panic(r)
		}
	}()
	return e.evalClause(en, &Clause{Text: text, Expr: x}), true
}

// EvaluatesForms: does fn contain a static call of slip.EvalArg or (*Scope).Eval (an evaluation event)?
func EvaluatesForms(fn *ssa.Function) bool {
	for _, b := range fn.Blocks {
		for _, in := range b.Instrs {
			c, ok := in.(*ssa.Call)
			if !ok {
				continue
			}
			callee := c.Call.StaticCallee()
			if callee == nil || callee.Pkg == nil || callee.Pkg.Pkg.Path() != ModPath {
				continue
			}
			if callee.Name() == "EvalArg" {
				return true
			}
			if callee.Name() == "Eval" && callee.Signature.Recv() != nil && isScopePtr(callee.Signature.Recv().Type()) {
				return true
			}
		}
	}
	return false
}

// TakesSyncLock: does fn contain a static call of a sync Lock / RLock / TryLock?
func TakesSyncLock(fn *ssa.Function) bool {
	for _, b := range fn.Blocks {
		for _, in := range b.Instrs {
			c, ok := in.(*ssa.Call)
			if !ok {
				continue
			}
			callee := c.Call.StaticCallee()
			if callee == nil || callee.Pkg == nil || callee.Pkg.Pkg.Path() != "sync" {
				continue
			}
			switch callee.Name() {
			case "Lock", "RLock", "TryLock":
				return true
			}
		}
	}
	return false
}
