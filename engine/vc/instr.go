package vc

import (
	"sort"
	"strings"
	"fmt"
	"go/token"
	"go/types"

	"golang.org/x/tools/go/ssa"
)

// step executes one instruction; returns false when the path ends.
func (e *Exec) step(fr *Frame, st *State, in ssa.Instruction, b *ssa.BasicBlock, incoming map[*ssa.BasicBlock][]edge, rets *[]retInfo, c *Contract) bool {
	e.curFr, e.curIn = fr, in
	defer func() { e.curFr, e.curIn = fr, nil }()
	e.confine(fr, st, in, c)
	switch x := in.(type) {
	case *ssa.DebugRef:
	case *ssa.Alloc:
		fr.vals[x] = e.doAlloc(fr, st, x)
	case *ssa.FieldAddr:
		fr.vals[x] = e.fieldAddr(fr, st, x)
	case *ssa.IndexAddr:
		fr.vals[x] = e.indexAddr(fr, st, x)
	case *ssa.Field:
		sv, ok := e.val(fr, x.X).(*StructVal)
		if ok && x.Field < len(sv.Fs) {
			fr.vals[x] = sv.Fs[x.Field]
		} else {
			fr.vals[x] = e.havocValue(x.Type(), st.pc, "field")
		}
	case *ssa.Index:
		fr.vals[x] = e.doIndex(fr, st, x)
	case *ssa.Lookup:
		fr.vals[x] = e.doLookup(fr, st, x)
	case *ssa.UnOp:
		fr.vals[x] = e.unop(fr, st, x)
	case *ssa.BinOp:
		fr.vals[x] = e.binop(fr, st, x)
	case *ssa.Store:
		e.onStore(fr, st, x, c)
		e.exactUse(fr, st, x.Val, "store")
		e.store(fr, st, e.val(fr, x.Addr), e.val(fr, x.Val), x.Val.Type())
	case *ssa.MapUpdate:
		e.mapUpdate(fr, st, x)
	case *ssa.Convert:
		e.pendingExact = nil
		fr.vals[x] = e.convert(fr, st, x.X, x.Type())
		if e.pendingExact != nil {
			e.setExact(fr, x, e.pendingExact)
			e.pendingExact = nil
		}
	case *ssa.ChangeType:
		fr.vals[x] = e.val(fr, x.X)
		if e.Opt.Exact {
			if ex := e.exOf(fr, x.X, nil); ex != nil {
				e.setExact(fr, x, ex)
			}
		}
	case *ssa.MultiConvert:
		fr.vals[x] = e.convert(fr, st, x.X, x.Type())
	case *ssa.ChangeInterface:
		fr.vals[x] = e.val(fr, x.X)
	case *ssa.MakeInterface:
		e.exactUse(fr, st, x.X, "box")
		fr.vals[x] = e.def(SObj, e.box(e.val(fr, x.X), x.X.Type()))
	case *ssa.TypeAssert:
		v, ok := e.typeAssert(fr, st, x)
		if !ok {
			return false
		}
		fr.vals[x] = v
	case *ssa.Extract:
		tv, ok := e.val(fr, x.Tuple).(*Tuple)
		if ok && x.Index < len(tv.Vs) {
			fr.vals[x] = tv.Vs[x.Index]
		} else {
			fr.vals[x] = e.havocValue(x.Type(), st.pc, "extract")
		}
	case *ssa.Slice:
		fr.vals[x] = e.doSlice(fr, st, x)
	case *ssa.MakeSlice:
		fr.vals[x] = e.makeSlice(fr, st, x)
	case *ssa.MakeMap:
		r := e.alloc(st, "map")
		fr.vals[x] = r
		e.mapInit(st, r, x.Type())
	case *ssa.MakeChan:
		fr.vals[x] = e.alloc(st, "chan")
	case *ssa.MakeClosure:
		// captured variables may be written whenever the closure runs
		onlyDeferred := true
		if refs := x.Referrers(); refs != nil {
			for _, r := range *refs {
				switch r.(type) {
				case *ssa.Defer, *ssa.DebugRef:
				default:
					onlyDeferred = false
				}
			}
		}
		if !onlyDeferred {
			for _, bnd := range x.Bindings {
				if r := allocRoot(bnd); r != nil {
					if key, ok := fr.localKey(r); ok {
						fr.escaped(key)
					}
				}
			}
		}
		fr.vals[x] = e.alloc(st, "closure")
	case *ssa.Range:
		fr.vals[x] = e.fresh(SInt, "iter")
	case *ssa.Next:
		fr.vals[x] = e.doNext(fr, st, x)
	case *ssa.Select:
		e.newEpoch(st)
		fr.vals[x] = e.havocValue(x.Type(), st.pc, "select")
	case *ssa.Send:
		e.newEpoch(st)
	case *ssa.Go:
		e.note("go statement: concurrency not modelled (heap havocked)")
		e.newEpoch(st)
	case *ssa.Defer:
		fr.defers = append(fr.defers, x)
		st.defers = append(st.defers, deferEntry{d: x, guard: st.pc})
		for _, a := range x.Call.Args {
			if r := allocRoot(a); r != nil {
				if key, ok := fr.localKey(r); ok {
					fr.escaped(key)
				}
			}
		}
	case *ssa.RunDefers:
		e.runDefers(fr, st)
	case *ssa.Call:
		ao := e.aoBefore(fr, st, x)
		v, ok := e.call(fr, st, x)
		if !ok {
			return false
		}
		fr.vals[x] = v
		e.aoAfter(fr, st, x, ao)
	case *ssa.Jump:
		e.flow(fr, st, b, b.Succs[0], st, incoming)
		return false
	case *ssa.If:
		cond := e.term(fr, st, x.Cond)
		t := st.clone()
		t.pc = e.def(SBool, And(st.pc, cond))
		f := st.clone()
		f.pc = e.def(SBool, And(st.pc, Not(cond)))
		e.flow(fr, st, b, b.Succs[0], t, incoming)
		e.flow(fr, st, b, b.Succs[1], f, incoming)
		return false
	case *ssa.Return:
		var res []Value
		for _, r := range x.Results {
			e.exactUse(fr, st, r, "return")
			res = append(res, e.val(fr, r))
		}
		if fr.parent == nil {
			e.atReturn(fr, st, res, c)
		}
		*rets = append(*rets, retInfo{st: st, res: res})
		return false
	case *ssa.Panic:
		e.atPanic(fr, st, x)
		return false
	default:
		panic(unsupported{fmt.Sprintf("instruction %T", in)})
	}
	return true
}

func (fr *Frame) escaped(key string) {
	if fr.esc == nil {
		fr.esc = map[string]bool{}
	}
	fr.esc[key] = true
}

func (e *Exec) flow(fr *Frame, cur *State, from, to *ssa.BasicBlock, st *State, incoming map[*ssa.BasicBlock][]edge) {
	for h, li := range fr.loops {
		if li.noBreak && li.body[from] && !li.body[to] && from != h {
			e.oblige(st, "full-loop", li.key+":left-before-the-end", Not(st.pc), e.posOf(from.Instrs[len(from.Instrs)-1]))
		}
	}
	if len(fr.loops) > 0 {
		var hs []*ssa.BasicBlock
		for h, li := range fr.loops {
			if len(li.exits) > 0 && li.body[from] && !li.body[to] {
				hs = append(hs, h)
			}
		}
		sort.Slice(hs, func(i, j int) bool { return hs[i].Index < hs[j].Index })
		for _, h := range hs {
			li := fr.loops[h]
			for _, x := range li.exits {
				e.oblige(st, "loop-exit", fr.path+li.key+":"+x.name, x.eval(li.hv, li.hv, st, from.Instrs[len(from.Instrs)-1]), e.posOf(from.Instrs[len(from.Instrs)-1]))
			}
		}
	}
	if to.Dominates(from) {
		e.backEdge(fr, from, to, st)
		return
	}
	incoming[to] = append(incoming[to], edge{from: from, st: st})
}

func (e *Exec) doAlloc(fr *Frame, st *State, x *ssa.Alloc) Value {
	et := x.Type().(*types.Pointer).Elem()
	if !x.Heap || capturedOnly(x) {
		e.localN++
		key := fmt.Sprintf("L%d", e.localN)
		fr.locals[x] = key
		loc := &Loc{Kind: LLocal, Key: key, Type: et}
		if _, ok := et.Underlying().(*types.Array); ok {
			// local array: model as a fresh backing array
			r := e.alloc(st, "arr")
			return r
		}
		e.storeLoc(st, loc, e.zeroOf(et), et)
		return loc
	}
	r := e.alloc(st, "new")
	if isBigPtr(x.Type()) && bigName(x.Type()) == "Int" {
		e.bigSet(st, r, IntLit(0)) // the zero value of big.Int is 0
	}
	switch et.Underlying().(type) {
	case *types.Struct:
		e.storeStruct(st, r, et, e.zeroOf(et))
	case *types.Array:
		// backing array with id r; contents zero: not asserted (unknown)
	default:
		s := sortOf(et)
		comp := "P_" + sortKey(s)
		h := e.heapRead(st, comp, ArrSort(s))
		st.heap[comp] = e.def(h.Sort, Store(h, r, e.asTerm(st, e.zeroOf(et), et)))
	}
	return r
}

func (e *Exec) fieldAddr(fr *Frame, st *State, x *ssa.FieldAddr) Value {
	base := e.val(fr, x.X)
	stt := derefStruct(x.X.Type())
	if stt == nil {
		panic(unsupported{"FieldAddr on non-struct pointer"})
	}
	ft := stt.s.Field(x.Field).Type()
	_, fieldIsStruct := ft.Underlying().(*types.Struct)
	switch bv := base.(type) {
	case *Loc:
		switch bv.Kind {
		case LLocal:
			return &Loc{Kind: LLocal, Key: fmt.Sprintf("%s.%d", bv.Key, x.Field), Type: ft}
		case LGlobal:
			return &Loc{Kind: LGlobal, Comp: fmt.Sprintf("%s.%d", bv.Comp, x.Field), Type: ft}
		}
		// pointer to a struct stored in a field/elem: not expected (structs by value are flattened)
		base = e.locAsTerm(st, bv)
	}
	ref := base.(*Term)
	if fieldIsStruct {
		return e.embRef(stt.name, x.Field, ref)
	}
	return &Loc{Kind: LField, Comp: fieldComp(stt.name, x.Field), Ref: ref, Type: ft}
}

func (e *Exec) indexAddr(fr *Frame, st *State, x *ssa.IndexAddr) Value {
	idx := e.term(fr, st, x.Index)
	switch u := x.X.Type().Underlying().(type) {
	case *types.Slice:
		sl := e.term(fr, st, x.X)
		e.safety(st, "safe:index", render(x, 0), And(Le(IntLit(0), idx), Lt(idx, App(SInt, "sl-len", sl))), e.posOf(x),
			App(SInt, "sl-len", sl), idx)
		e.assume(st.pc, And(Le(IntLit(0), idx), Lt(idx, App(SInt, "sl-len", sl))))
		et := u.Elem()
		abs := e.def(SInt, Add(App(SInt, "sl-off", sl), idx))
		id := App(SInt, "sl-id", sl)
		if _, ok := et.Underlying().(*types.Struct); ok {
			return e.elemRef(id, abs)
		}
		return &Loc{Kind: LElem, Comp: arrComp(et), Ref: id, Idx: abs, Type: et}
	case *types.Pointer:
		arr, ok := u.Elem().Underlying().(*types.Array)
		if !ok {
			panic(unsupported{"IndexAddr on pointer to non-array"})
		}
		base := e.val(fr, x.X)
		var id *Term
		switch bv := base.(type) {
		case *Term:
			id = bv
		case *Loc:
			id = e.locAsTerm(st, bv)
		}
		n := IntLit(arr.Len())
		e.safety(st, "safe:index", render(x, 0), And(Le(IntLit(0), idx), Lt(idx, n)), e.posOf(x), idx)
		e.assume(st.pc, And(Le(IntLit(0), idx), Lt(idx, n)))
		et := arr.Elem()
		if _, ok := et.Underlying().(*types.Struct); ok {
			return e.elemRef(id, idx)
		}
		return &Loc{Kind: LElem, Comp: arrComp(et), Ref: id, Idx: idx, Type: et}
	}
	panic(unsupported{"IndexAddr on " + x.X.Type().String()})
}

func (e *Exec) safety(st *State, kind, anchor string, goal *Term, pos string, ask ...*Term) {
	if !e.Opt.Safety {
		return
	}
	e.oblige(st, kind, anchor, goal, pos, ask...)
}

func (e *Exec) doIndex(fr *Frame, st *State, x *ssa.Index) Value {
	// array value or string? (Index is used for arrays and type-param strings)
	idx := e.term(fr, st, x.Index)
	switch u := x.X.Type().Underlying().(type) {
	case *types.Array:
		n := IntLit(u.Len())
		e.safety(st, "safe:index", render(x, 0), And(Le(IntLit(0), idx), Lt(idx, n)), e.posOf(x), idx)
		e.assume(st.pc, And(Le(IntLit(0), idx), Lt(idx, n)))
		if et, ok := arrayElem(x.X.Type()); ok {
			if vid, ok := e.val(fr, x.X).(*Term); ok && vid.Sort == SInt {
				s := sortOf(et)
				h := e.heapRead(st, arrComp(et), ArrSort(ArrSort(s)))
				v := e.def(s, Select(Select(h, vid), idx))
				e.assumeLoaded(st, et, v)
				return v
			}
		}
	case *types.Basic:
		if u.Info()&types.IsString != 0 {
			s := e.term(fr, st, x.X)
			e.safety(st, "safe:index", render(x, 0), And(Le(IntLit(0), idx), Lt(idx, App(SInt, "slen", s))), e.posOf(x), App(SInt, "slen", s), idx)
			e.assume(st.pc, And(Le(IntLit(0), idx), Lt(idx, App(SInt, "slen", s))))
			r := e.def(SInt, App(SInt, "sat", s, idx))
			e.assume(st.pc, And(Le(IntLit(0), r), Le(r, IntLit(255))))
			return r
		}
	}
	return e.havocValue(x.Type(), st.pc, "index")
}

func (e *Exec) doLookup(fr *Frame, st *State, x *ssa.Lookup) Value {
	if b, ok := x.X.Type().Underlying().(*types.Basic); ok && b.Info()&types.IsString != 0 {
		s := e.term(fr, st, x.X)
		idx := e.term(fr, st, x.Index)
		e.safety(st, "safe:index", render(x, 0), And(Le(IntLit(0), idx), Lt(idx, App(SInt, "slen", s))), e.posOf(x), App(SInt, "slen", s), idx)
		e.assume(st.pc, And(Le(IntLit(0), idx), Lt(idx, App(SInt, "slen", s))))
		r := e.def(SInt, App(SInt, "sat", s, idx))
		e.assume(st.pc, And(Le(IntLit(0), r), Le(r, IntLit(255))))
		return r
	}
	return e.mapLookup(fr, st, x)
}

func (e *Exec) unop(fr *Frame, st *State, x *ssa.UnOp) Value {
	switch x.Op {
	case token.MUL:
		return e.load(fr, st, e.val(fr, x.X), x.Type())
	case token.NOT:
		return e.def(SBool, Not(e.term(fr, st, x.X)))
	case token.SUB:
		v := e.term(fr, st, x.X)
		if ii, ok := intInfoOf(x.Type()); ok {
			neg := App(SInt, "-", v)
			e.exactArith(fr, st, x, "neg", x.X, nil, v, nil)
			return e.def(SInt, ii.wrap(neg, true))
		}
		return e.fresh(SInt, "fneg")
	case token.XOR:
		v := e.term(fr, st, x.X)
		if ii, ok := intInfoOf(x.Type()); ok {
			if ii.signed {
				return e.def(SInt, Sub(App(SInt, "-", v), IntLit(1)))
			}
			return e.def(SInt, Sub(ii.hi(), v))
		}
	case token.ARROW:
		e.newEpoch(st)
		return e.havocValue(x.Type(), st.pc, "recv")
	}
	return e.havocValue(x.Type(), st.pc, "unop")
}

func isString(t types.Type) bool {
	b, ok := t.Underlying().(*types.Basic)
	return ok && b.Info()&types.IsString != 0
}
func isFloat(t types.Type) bool {
	b, ok := t.Underlying().(*types.Basic)
	return ok && b.Info()&(types.IsFloat|types.IsComplex) != 0
}

func (e *Exec) binop(fr *Frame, st *State, x *ssa.BinOp) Value {
	xt := x.X.Type()
	a := e.val(fr, x.X)
	b := e.val(fr, x.Y)
	if e.Opt.ExactCompare {
		// the outcome of a comparison decides the answer of a numeric predicate: its operands are data
		switch x.Op {
		case token.EQL, token.NEQ, token.LSS, token.LEQ, token.GTR, token.GEQ:
			e.exactUse(fr, st, x.X, "compare")
			e.exactUse(fr, st, x.Y, "compare")
		}
	}
	switch x.Op {
	case token.EQL, token.NEQ:
		var eq *Term
		switch av := a.(type) {
		case *Term:
			bv, ok := b.(*Term)
			if !ok {
				// comparing a pointer term with an address: addresses are never nil
				if _, isLoc := b.(*Loc); isLoc {
					eq = Eq(av, e.locAsTerm(st, b.(*Loc)))
				} else {
					eq = e.fresh(SBool, "cmp")
				}
				break
			}
			if av.Sort == SSl {
				// only comparison with nil is legal
				if bv.S == "nil-sl" {
					eq = Eq(App(SInt, "sl-id", av), IntLit(0))
				} else {
					eq = Eq(App(SInt, "sl-id", bv), IntLit(0))
				}
			} else if isFloat(xt) {
				eq = e.floatCmp("feq", av, bv)
			} else if av.Sort == SObj && (bv.S == "nil-obj" || av.S == "nil-obj") {
				o := av
				if av.S == "nil-obj" {
					o = bv
				}
				eq = Eq(App(SInt, "o-tag", o), IntLit(0))
			} else if av.Sort == bv.Sort {
				eq = Eq(av, bv)
			} else {
				eq = e.fresh(SBool, "cmp")
			}
		case *Loc:
			switch bv := b.(type) {
			case *Term:
				eq = Eq(e.locAsTerm(st, av), bv)
			case *Loc:
				eq = Eq(e.locAsTerm(st, av), e.locAsTerm(st, bv))
			default:
				eq = e.fresh(SBool, "cmp")
			}
		case *StructVal:
			bv, ok := b.(*StructVal)
			if ok && len(bv.Fs) == len(av.Fs) {
				var parts []*Term
				for i := range av.Fs {
					at, ok1 := av.Fs[i].(*Term)
					bt, ok2 := bv.Fs[i].(*Term)
					if ok1 && ok2 && at.Sort == bt.Sort {
						parts = append(parts, Eq(at, bt))
					} else {
						parts = append(parts, e.fresh(SBool, "cmp"))
					}
				}
				eq = And(parts...)
			} else {
				eq = e.fresh(SBool, "cmp")
			}
		default:
			eq = e.fresh(SBool, "cmp")
		}
		if x.Op == token.NEQ {
			return e.def(SBool, Not(eq))
		}
		return e.def(SBool, eq)
	}
	at := e.asTerm(st, a, xt)
	bt := e.asTerm(st, b, x.Y.Type())
	switch x.Op {
	case token.LSS, token.LEQ, token.GTR, token.GEQ:
		if isString(xt) {
			lt := func(p, q *Term) *Term { return App(SBool, "str_lt", p, q) }
			switch x.Op {
			case token.LSS:
				return e.def(SBool, lt(at, bt))
			case token.GTR:
				return e.def(SBool, lt(bt, at))
			case token.LEQ:
				return e.def(SBool, Not(lt(bt, at)))
			default:
				return e.def(SBool, Not(lt(at, bt)))
			}
		}
		if isFloat(xt) {
			switch x.Op {
			case token.LSS:
				return e.floatCmp("flt", at, bt)
			case token.GTR:
				return e.floatCmp("flt", bt, at)
			case token.LEQ:
				return e.floatCmp("fle", at, bt)
			default:
				return e.floatCmp("fle", bt, at)
			}
		}
		op := map[token.Token]string{token.LSS: "<", token.LEQ: "<=", token.GTR: ">", token.GEQ: ">="}[x.Op]
		return e.def(SBool, App(SBool, op, at, bt))
	}
	if isString(xt) && x.Op == token.ADD {
		r := e.def(SInt, App(SInt, "scat", at, bt))
		e.assume(st.pc, Eq(App(SInt, "slen", r), Add(App(SInt, "slen", at), App(SInt, "slen", bt))))
		return r
	}
	ii, ok := intInfoOf(x.Type())
	if !ok {
		// float arithmetic: opaque
		return e.fresh(SInt, "farith")
	}
	switch x.Op {
	case token.ADD:
		raw := Add(at, bt)
		e.exactArith(fr, st, x, "add", x.X, x.Y, at, bt)
		return e.def(SInt, ii.wrap(raw, true))
	case token.SUB:
		raw := Sub(at, bt)
		e.exactArith(fr, st, x, "sub", x.X, x.Y, at, bt)
		return e.def(SInt, ii.wrap(raw, true))
	case token.MUL:
		// (a / b) * b: give the solver the division lemma for these very terms (nonlinear otherwise)
		for _, pr := range [][2]ssa.Value{{x.X, x.Y}, {x.Y, x.X}} {
			if q, ok := pr[0].(*ssa.BinOp); ok && q.Op == token.QUO && q.Y == pr[1] {
				a := e.term(fr, st, q.X)
				b := e.term(fr, st, q.Y)
				prod := App(SInt, "*", App(SInt, e.divFun(q.Y), a, b), b)
				e.assume(st.pc, Implies(And(Le(IntLit(0), a), Lt(IntLit(0), b)), And(Le(IntLit(0), prod), Le(prod, a), Lt(Sub(a, prod), b))))
				e.assume(st.pc, Implies(And(Le(IntLit(0), a), Lt(IntLit(0), b)), Eq(App(SInt, "mod", prod, b), IntLit(0))))
				// the same facts for the product term the code goes on with (the quotient of a non-negative
				// dividend lies in [0, a], so its machine value is its mathematical value)
				raw2 := App(SInt, "*", at, bt)
				e.assume(st.pc, Implies(And(Le(IntLit(0), a), Lt(IntLit(0), b)), And(Le(IntLit(0), raw2), Le(raw2, a), Lt(Sub(a, raw2), b))))
			}
		}
		// (q + c) * d: hand the solver the distributed form over the very product term q * d it has met before
		// (multiplication of two variables is opaque to linear reasoning)
		for k, pr := range [][2]ssa.Value{{x.X, x.Y}, {x.Y, x.X}} {
			sum, ok := pr[0].(*ssa.BinOp)
			if !ok || (sum.Op != token.ADD && sum.Op != token.SUB) {
				continue
			}
			cst, isC := sum.Y.(*ssa.Const)
			if !isC || cst.Value == nil {
				continue
			}
			if _, isC2 := pr[1].(*ssa.Const); isC2 {
				continue
			}
			q := e.term(fr, st, sum.X)
			c := e.term(fr, st, sum.Y)
			other := e.term(fr, st, pr[1])
			sumT := e.term(fr, st, pr[0])
			var qd *Term
			if k == 0 {
				qd = App(SInt, "*", q, other)
			} else {
				qd = App(SInt, "*", other, q)
			}
			rawK := App(SInt, "*", at, bt)
			if sum.Op == token.ADD {
				e.assume(st.pc, Implies(Eq(sumT, Add(q, c)), Eq(rawK, Add(qd, App(SInt, "*", c, other)))))
			} else {
				e.assume(st.pc, Implies(Eq(sumT, Sub(q, c)), Eq(rawK, Sub(qd, App(SInt, "*", c, other)))))
			}
		}
		raw := App(SInt, "*", at, bt)
		e.exactArith(fr, st, x, "mul", x.X, x.Y, at, bt)
		_, cx := x.X.(*ssa.Const)
		_, cy := x.Y.(*ssa.Const)
		if cx || cy {
			return e.def(SInt, ii.wrap(raw, false))
		}
		return e.def(SInt, ii.wrap(raw, false))
	case token.QUO:
		e.safety(st, "safe:div", render(x, 0), Not(Eq(bt, IntLit(0))), e.posOf(x), at, bt)
		e.assume(st.pc, Not(Eq(bt, IntLit(0))))
		raw := App(SInt, e.divFun(x.Y), at, bt)
		if e.divFun(x.Y) == "tdivu" {
			// division by a variable kept abstract (option abstract-div): only its linear consequences are given
			e.assume(st.pc, Implies(And(Le(IntLit(0), at), Lt(IntLit(0), bt)), And(Le(IntLit(0), raw), Le(raw, at))))
			e.assume(st.pc, Implies(Eq(bt, IntLit(1)), Eq(raw, at)))
			e.assume(st.pc, Implies(And(Le(IntLit(0), at), Lt(at, bt)), Eq(raw, IntLit(0))))
		}
		e.exactArith(fr, st, x, "quo", x.X, x.Y, at, bt)
		return e.def(SInt, ii.wrap(raw, true))
	case token.REM:
		e.safety(st, "safe:div", render(x, 0), Not(Eq(bt, IntLit(0))), e.posOf(x), at, bt)
		e.assume(st.pc, Not(Eq(bt, IntLit(0))))
		e.exactArith(fr, st, x, "rem", x.X, x.Y, at, bt)
		return e.def(SInt, App(SInt, "trem", at, bt))
	case token.SHL:
		if c, ok := x.Y.(*ssa.Const); ok && c.Value != nil {
			n := c.Int64()
			if n >= 0 && n < 64 {
				raw := App(SInt, "*", at, BigLit(pow2(int(n))))
				e.exactShl(fr, x, at, n)
				return e.def(SInt, ii.wrap(raw, false))
			}
		}
		r := e.def(SInt, App(SInt, "uf_shl", at, bt))
		e.assume(st.pc, ii.inRange(r))
		return r
	case token.SHR:
		if c, ok := x.Y.(*ssa.Const); ok && c.Value != nil {
			n := c.Int64()
			if n >= 0 && n < 64 {
				return e.def(SInt, App(SInt, "div", at, BigLit(pow2(int(n)))))
			}
		}
		r := e.def(SInt, App(SInt, "uf_shr", at, bt))
		e.assume(st.pc, ii.inRange(r))
		if !ii.signed {
			e.assume(st.pc, Le(r, at))
		}
		return r
	case token.AND:
		// x & (2^k-1) with non-negative x is x mod 2^k
		if c, ok := x.Y.(*ssa.Const); ok && c.Value != nil {
			m := c.Int64()
			if m >= 0 && (m+1)&m == 0 {
				return e.def(SInt, App(SInt, "mod", at, IntLit(m+1)))
			}
		}
		// a constant mask below 2^16 on an unsigned operand: the selected bits, exactly
		for _, pair := range [][2]ssa.Value{{x.X, x.Y}, {x.Y, x.X}} {
			c, ok := pair[0].(*ssa.Const)
			if !ok || c.Value == nil || ii.signed {
				continue
			}
			m := c.Int64()
			if m < 0 || m >= 1<<16 {
				continue
			}
			ot := at
			if pair[0] == x.X {
				ot = bt
			}
			bit := func(k int) *Term {
				p2 := IntLit(int64(1) << uint(k))
				return App(SInt, "*", App(SInt, "mod", App(SInt, "div", ot, p2), IntLit(2)), p2)
			}
			// narrow operand and a mask that clears only a few of its bits: operand minus the cleared bits
			if oi, ok := intInfoOf(pair[1].Type()); ok && !oi.signed && oi.bits <= 16 {
				var cleared []int
				for k := 0; k < oi.bits; k++ {
					if m&(1<<uint(k)) == 0 {
						cleared = append(cleared, k)
					}
				}
				if len(cleared) <= 2 {
					r := ot
					for _, k := range cleared {
						r = Sub(r, bit(k))
					}
					return e.def(SInt, r)
				}
			}
			var parts []*Term
			for k := 0; k < 16; k++ {
				if m&(1<<uint(k)) != 0 {
					parts = append(parts, bit(k))
				}
			}
			if len(parts) == 0 {
				return IntLit(0)
			}
			sum := parts[0]
			for _, pt := range parts[1:] {
				sum = Add(sum, pt)
			}
			return e.def(SInt, sum)
		}
		r := e.def(SInt, App(SInt, "uf_and", at, bt))
		e.assume(st.pc, ii.inRange(r))
		e.assume(st.pc, Implies(And(Le(IntLit(0), at), Le(IntLit(0), bt)), And(Le(IntLit(0), r), Le(r, at), Le(r, bt))))
		e.assume(st.pc, Implies(Le(IntLit(0), bt), And(Le(IntLit(0), r), Le(r, bt))))
		return r
	case token.OR, token.XOR, token.AND_NOT:
		f := map[token.Token]string{token.OR: "uf_or", token.XOR: "uf_xor", token.AND_NOT: "uf_andnot"}[x.Op]
		r := e.def(SInt, App(SInt, f, at, bt))
		e.assume(st.pc, ii.inRange(r))
		return r
	}
	return e.havocValue(x.Type(), st.pc, "binop")
}

func (e *Exec) floatCmp(f string, a, b *Term) *Term {
	if !e.declared[f] {
		e.declared[f] = true
		e.emit("(declare-fun %s (Int Int) Bool)", f)
	}
	return App(SBool, f, a, b)
}

// exactCheck (family I): remember the mathematical value of an integer
// expression next to its machine value; the obligation "machine == exact" is
// generated where the value is used as data (exactUse), so that code which
// tests for overflow before using the result verifies.
func (e *Exec) exactCheck(st *State, in ssa.Instruction, t types.Type, raw *Term, op string) {
}

func (e *Exec) exOf(fr *Frame, v ssa.Value, machine *Term) *Term {
	for f := fr; f != nil; f = f.parent {
		if t, ok := f.exact[v]; ok {
			return t
		}
	}
	return machine
}

func (e *Exec) setExact(fr *Frame, v ssa.Value, t *Term) {
	if fr.exact == nil {
		fr.exact = map[ssa.Value]*Term{}
	}
	fr.exact[v] = e.def(SInt, t)
}

// exactArith records the exact value of an integer arithmetic result.
func (e *Exec) exactArith(fr *Frame, st *State, x ssa.Value, op string, a, b ssa.Value, at, bt *Term) {
	if !e.Opt.Exact {
		return
	}
	ii, ok := intInfoOf(x.Type())
	if !ok || ii.bits != 64 {
		return
	}
	if e.Opt.ExactCompare && !e.exactType(x.Type()) {
		// in predicates also int64 chains (parts of numbers taken out of math/big values) are tracked;
		// plain int loop counters and lengths are not
		if bt, ok := x.Type().Underlying().(*types.Basic); !ok || bt.Kind() != types.Int64 {
			if e.exOf(fr, a, nil) == nil && (b == nil || e.exOf(fr, b, nil) == nil) {
				return
			}
		}
	} else if !e.exactType(x.Type()) {
		// only chains that start at a Lisp fixnum are tracked
		has := false
		for _, o := range []ssa.Value{a, b} {
			if o == nil {
				continue
			}
			if e.exOf(fr, o, nil) != nil || e.exactType(o.Type()) {
				has = true
			}
		}
		if !has {
			return
		}
	}
	ea := e.exOf(fr, a, at)
	var r *Term
	switch op {
	case "neg":
		r = App(SInt, "-", ea)
	case "add":
		r = Add(ea, e.exOf(fr, b, bt))
	case "sub":
		r = Sub(ea, e.exOf(fr, b, bt))
	case "mul":
		r = App(SInt, "*", ea, e.exOf(fr, b, bt))
	case "quo":
		r = App(SInt, "tdiv", ea, e.exOf(fr, b, bt))
	case "rem":
		r = App(SInt, "trem", ea, e.exOf(fr, b, bt))
	default:
		return
	}
	e.setExact(fr, x, r)
}

// exactUse: v is used as data (boxed into a Lisp object, returned, stored,
// passed on): its machine value must be the exact one.
func (e *Exec) exactUse(fr *Frame, st *State, v ssa.Value, what string) {
	if !e.Opt.Exact {
		return
	}
	var ex *Term
	for f := fr; f != nil; f = f.parent {
		if t, ok := f.exact[v]; ok {
			ex = t
			break
		}
	}
	if ex == nil {
		return
	}
	m, ok := e.val(fr, v).(*Term)
	if !ok || m.S == ex.S {
		return
	}
	e.oblige(st, "exact:"+what, render(v, 0), Eq(m, ex), e.posOf(e.curIn), m, ex)
	// assert-then-assume: what follows is verified for the executions that did not wrap here
	// (the wrap itself is the obligation above)
	e.assume(st.pc, Eq(m, ex))
}

func (e *Exec) exactType(t types.Type) bool {
	n, ok := t.(*types.Named)
	if !ok {
		return false
	}
	return n.Obj().Name() == "Fixnum"
}

func (e *Exec) convert(fr *Frame, st *State, xv ssa.Value, to types.Type) Value {
	from := xv.Type()
	v := e.val(fr, xv)
	if lv, ok := v.(*Loc); ok {
		v = e.locAsTerm(st, lv)
	}
	if _, ok := v.(*Term); !ok {
		return e.havocValue(to, st.pc, "conv")
	}
	fi, fok := intInfoOf(from)
	ti, tok := intInfoOf(to)
	switch {
	case fok && tok:
		t := v.(*Term)
		if e.Opt.Exact && fi.bits == 64 && ti.bits == 64 && fi.signed == ti.signed {
			if ex := e.exOf(fr, xv, nil); ex != nil {
				e.pendingExact = ex
			}
		}
		if fi == ti {
			return t
		}
		// widening within range needs no wrap
		if (fi.signed == ti.signed && fi.bits <= ti.bits) || (!fi.signed && ti.signed && fi.bits < ti.bits) {
			return t
		}
		return e.def(SInt, ti.wrap(t, false))
	case isString(to) && fok:
		// string(rune): length 1..4
		r := e.fresh(SInt, "runestr")
		e.emit("(assert (and (<= 1 (slen %s)) (<= (slen %s) 4)))", r.S, r.S)
		return r
	case isString(to):
		if sl, ok := from.Underlying().(*types.Slice); ok {
			t := v.(*Term)
			r := e.fresh(SInt, "str")
			if eb, ok := sl.Elem().Underlying().(*types.Basic); ok && eb.Kind() == types.Byte {
				e.assume(st.pc, Eq(App(SInt, "slen", r), App(SInt, "sl-len", t)))
			} else {
				// []rune -> string: len between n and 4n
				e.assume(st.pc, And(Le(App(SInt, "sl-len", t), App(SInt, "slen", r)), Le(App(SInt, "slen", r), App(SInt, "*", IntLit(4), App(SInt, "sl-len", t)))))
			}
			return r
		}
		return v
	case isString(from):
		if sl, ok := to.Underlying().(*types.Slice); ok {
			t := v.(*Term)
			id := e.alloc(st, "conv")
			n := e.fresh(SInt, "convlen")
			if eb, ok := sl.Elem().Underlying().(*types.Basic); ok && eb.Kind() == types.Byte {
				e.assume(st.pc, Eq(n, App(SInt, "slen", t)))
				// the new array holds the bytes of the string
				// the terms go into a pattern: constants, not macros that expand to an ite over path conditions
				h := e.patConst(e.heapRead(st, "A_Int", ArrSort(ArrSort(SInt))), "hconv")
				id = e.patConst(id, "idconv")
				e.emit("(assert (=> %s (forall ((j!c Int)) (! (= (select (select %s %s) j!c) (sat %s j!c)) :pattern ((select (select %s %s) j!c))))))",
					st.pc.S, h.S, id.S, t.S, h.S, id.S)
			} else {
				// string -> []rune: ceil(len/4) <= n <= len
				e.assume(st.pc, And(Le(n, App(SInt, "slen", t)), Le(App(SInt, "slen", t), App(SInt, "*", IntLit(4), n)), Le(IntLit(0), n)))
			}
			return e.def(SSl, App(SSl, "mk-sl", id, IntLit(0), n, n))
		}
		return v
	case isFloat(to) && isFloat(from):
		// widening (float32 -> float64) is exact: the same abstract value; narrowing rounds: an uninterpreted
		// function of the value, so that a comparison made after narrowing is not the comparison of the values
		fb, _ := from.Underlying().(*types.Basic)
		tb, _ := to.Underlying().(*types.Basic)
		if t, isT := v.(*Term); isT && fb != nil && tb != nil && fb.Kind() == types.Float64 && tb.Kind() == types.Float32 {
			if !e.declared["f64to32"] {
				e.declared["f64to32"] = true
				e.emit("(declare-fun f64to32 (Int) Int)")
			}
			return e.def(SInt, App(SInt, "f64to32", t))
		}
		return v
	case isFloat(to) || isFloat(from):
		if tok {
			r := e.fresh(SInt, "f2i")
			e.emit("(assert %s)", ti.inRange(r).S)
			return r
		}
		if fok {
			// int -> float: injective enough for our purposes? keep opaque
			return e.fresh(SInt, "i2f")
		}
		return v
	}
	return v
}

// patConst: a term that is to appear in a quantifier pattern, as a declared constant when it is a macro or compound.
func (e *Exec) patConst(t *Term, hint string) *Term {
	if !strings.Contains(t.S, "(") && !strings.HasPrefix(t.S, "v!") {
		return t
	}
	c := e.fresh(t.Sort, hint)
	e.emit("(assert (= %s %s))", c.S, t.S)
	return c
}

func (e *Exec) typeAssert(fr *Frame, st *State, x *ssa.TypeAssert) (Value, bool) {
	xv := e.term(fr, st, x.X)
	tag := App(SInt, "o-tag", xv)
	var ok *Term
	it, isIface := x.AssertedType.Underlying().(*types.Interface)
	if isIface {
		ok = e.implPred(it, x.AssertedType, tag)
		if st, static := x.X.Type().Underlying().(*types.Interface); static && types.Implements(x.X.Type(), it) && st != nil {
			// static type already implements: only nil fails
			ok = Not(Eq(tag, IntLit(0)))
		}
	} else {
		ok = Eq(tag, IntLit(int64(e.tag(x.AssertedType))))
	}
	ok = e.def(SBool, ok)
	if x.CommaOk {
		var val Value
		if isIface {
			val = Ite(ok, xv, &Term{"nil-obj", SObj})
		} else {
			val = e.unboxGuarded(xv, x.AssertedType, And(st.pc, ok), ok)
			e.assumeUnboxedExists(st, val, And(st.pc, ok), x.AssertedType)
		}
		return &Tuple{Vs: []Value{val, ok}}, true
	}
	e.safety(st, "safe:assert", render(x, 0), ok, e.posOf(x), tag)
	st.pc = e.def(SBool, And(st.pc, ok))
	if isIface {
		return xv, true
	}
	v := e.unbox(xv, x.AssertedType, st.pc)
	e.assumeUnboxedExists(st, v, st.pc, x.AssertedType)
	return v, true
}

// assumeUnboxedExists: a slice / pointer held by an existing object was allocated before now.
func (e *Exec) assumeUnboxedExists(st *State, v Value, pc *Term, ty types.Type) {
	t, ok := v.(*Term)
	if !ok {
		return
	}
	if t.Sort == SSl {
		e.assume(pc, Lt(App(SInt, "sl-id", t), e.heapRead(st, "$alloc", SInt)))
		return
	}
	switch ty.Underlying().(type) {
	case *types.Pointer, *types.Map, *types.Chan:
		if t.Sort == SInt {
			e.assume(pc, Lt(t, e.heapRead(st, "$alloc", SInt)))
		}
	}
}

// unboxGuarded: payload when ok, zero value otherwise.
func (e *Exec) unboxGuarded(x *Term, t types.Type, pc, ok *Term) Value {
	v := e.unbox(x, t, pc)
	z := e.zeroOf(t)
	return e.iteValue(ok, v, z)
}

// implPred: tag implements interface. A partially axiomatised predicate:
// facts are asserted only for tags that occur in this script.
func (e *Exec) implPred(it *types.Interface, named types.Type, tag *Term) *Term {
	name := "impl_" + sanitize(shortType(named))
	if !e.declared[name] {
		e.declared[name] = true
		e.emit("(declare-fun %s (Int) Bool)", name)
		e.emit("(assert (not (%s 0)))", name)
		e.impls = append(e.impls, implDecl{name: name, it: it})
	}
	return App(SBool, name, tag)
}

type implDecl struct {
	name string
	it   *types.Interface
	done int
}

// flushImplFacts asserts impl facts for every tag known so far.
func (e *Exec) flushImplFacts() {
	for i := range e.impls {
		d := &e.impls[i]
		for _, id := range e.tagOrder[d.done:] {
			if types.Implements(e.P.TagType(id), d.it) {
				e.emit("(assert (%s %d))", d.name, id)
			} else {
				e.emit("(assert (not (%s %d)))", d.name, id)
			}
		}
		d.done = len(e.tagOrder)
	}
}

func (e *Exec) doSlice(fr *Frame, st *State, x *ssa.Slice) Value {
	var lo, hi, mx *Term
	if x.Low != nil {
		lo = e.term(fr, st, x.Low)
	} else {
		lo = IntLit(0)
	}
	if x.High != nil {
		hi = e.term(fr, st, x.High)
	}
	if x.Max != nil {
		mx = e.term(fr, st, x.Max)
	}
	switch u := x.X.Type().Underlying().(type) {
	case *types.Slice:
		sl := e.term(fr, st, x.X)
		ln := App(SInt, "sl-len", sl)
		cp := App(SInt, "sl-cap", sl)
		if hi == nil {
			hi = ln
		}
		bound := cp
		if mx != nil {
			bound = mx
		}
		goal := And(Le(IntLit(0), lo), Le(lo, hi), Le(hi, bound))
		if mx != nil {
			goal = And(goal, Le(mx, cp))
		}
		e.safety(st, "safe:slice", render(x, 0), goal, e.posOf(x), ln, cp, lo, hi)
		e.assume(st.pc, goal)
		ncap := Sub(bound, lo)
		r := App(SSl, "mk-sl", App(SInt, "sl-id", sl), Add(App(SInt, "sl-off", sl), lo), Sub(hi, lo), ncap)
		return e.def(SSl, r)
	case *types.Basic: // string
		s := e.term(fr, st, x.X)
		ln := App(SInt, "slen", s)
		if hi == nil {
			hi = ln
		}
		goal := And(Le(IntLit(0), lo), Le(lo, hi), Le(hi, ln))
		e.safety(st, "safe:slice", render(x, 0), goal, e.posOf(x), ln, lo, hi)
		e.assume(st.pc, goal)
		r := e.def(SInt, App(SInt, "ssub", s, lo, hi))
		e.assume(st.pc, Eq(App(SInt, "slen", r), Sub(hi, lo)))
		return r
	case *types.Pointer: // pointer to array
		arr, ok := u.Elem().Underlying().(*types.Array)
		if !ok {
			break
		}
		n := IntLit(arr.Len())
		if hi == nil {
			hi = n
		}
		base := e.val(fr, x.X)
		var id *Term
		switch bv := base.(type) {
		case *Term:
			id = bv
		case *Loc:
			id = e.locAsTerm(st, bv)
		}
		goal := And(Le(IntLit(0), lo), Le(lo, hi), Le(hi, n))
		e.safety(st, "safe:slice", render(x, 0), goal, e.posOf(x), lo, hi)
		e.assume(st.pc, goal)
		return e.def(SSl, App(SSl, "mk-sl", id, lo, Sub(hi, lo), Sub(n, lo)))
	}
	return e.havocValue(x.Type(), st.pc, "slice")
}

func (e *Exec) makeSlice(fr *Frame, st *State, x *ssa.MakeSlice) Value {
	ln := e.term(fr, st, x.Len)
	cp := e.term(fr, st, x.Cap)
	goal := And(Le(IntLit(0), ln), Le(ln, cp), Le(cp, BigLit(pow2(62))))
	e.safety(st, "safe:makeslice", render(x.Len, 0), goal, e.posOf(x), ln, cp)
	e.assume(st.pc, goal)
	id := e.alloc(st, "mk")
	// zero contents
	et := x.Type().Underlying().(*types.Slice).Elem()
	if _, isStruct := et.Underlying().(*types.Struct); !isStruct {
		s := sortOf(et)
		comp := arrComp(et)
		h := e.heapRead(st, comp, ArrSort(ArrSort(s)))
		z := e.asTerm(st, e.zeroOf(et), et)
		st.heap[comp] = e.def(h.Sort, Store(h, id, &Term{fmt.Sprintf("((as const %s) %s)", ArrSort(s), z.S), ArrSort(s)}))
	}
	return e.def(SSl, App(SSl, "mk-sl", id, IntLit(0), ln, cp))
}

func (e *Exec) doNext(fr *Frame, st *State, x *ssa.Next) Value {
	tv := &Tuple{}
	tt := x.Type().(*types.Tuple)
	ok := e.fresh(SBool, "more")
	tv.Vs = append(tv.Vs, ok)
	if rg, isR := x.Iter.(*ssa.Range); isR && !x.IsString {
		if mt, isMap := rg.X.Type().Underlying().(*types.Map); isMap {
			if mi := mapInfoOf(mt); mi.ok {
				m := e.term(fr, st, rg.X)
				k := e.havocValue(mt.Key(), st.pc, "rk").(*Term)
				e.assume(st.pc, Implies(ok, e.mapHas(st, m, mt, k)))
				v := e.def(mi.vs, e.mapValue(st, m, mt, k))
				e.assumeLoaded(st, mt.Elem(), v)
				tv.Vs = append(tv.Vs, k, v)
				return tv
			}
		}
	}
	for i := 1; i < tt.Len(); i++ {
		t := tt.At(i).Type()
		if t == nil || !validType(t) {
			tv.Vs = append(tv.Vs, IntLit(0))
			continue
		}
		tv.Vs = append(tv.Vs, e.havocValue(t, st.pc, "next"))
	}
	return tv
}

func validType(t types.Type) bool {
	if b, ok := t.(*types.Basic); ok && b.Kind() == types.Invalid {
		return false
	}
	return true
}

// hashKeyCheck: a dynamic (interface) key must hold a hashable type.
func (e *Exec) hashKeyCheck(fr *Frame, st *State, key ssa.Value, in ssa.Instruction) {
	if _, ok := key.Type().Underlying().(*types.Interface); !ok {
		return
	}
	if !e.Opt.Safety {
		return
	}
	k := e.term(fr, st, key)
	name := "hashable"
	if !e.declared[name] {
		e.declared[name] = true
		e.emit("(declare-fun hashable (Int) Bool)")
		e.emit("(assert (hashable 0))")
		e.hashDecl = true
	}
	e.safety(st, "safe:hashkey", render(key, 0), App(SBool, "hashable", App(SInt, "o-tag", k)), e.posOf(in), App(SInt, "o-tag", k))
	e.assume(st.pc, App(SBool, "hashable", App(SInt, "o-tag", k)))
}

func (e *Exec) flushHashFacts() {
	if !e.hashDecl {
		return
	}
	for _, id := range e.tagOrder[e.hashDone:] {
		if types.Comparable(e.P.TagType(id)) {
			e.emit("(assert (hashable %d))", id)
		} else {
			e.emit("(assert (not (hashable %d)))", id)
		}
	}
	e.hashDone = len(e.tagOrder)
}

func (e *Exec) atPanic(fr *Frame, st *State, x *ssa.Panic) { e.acceptsCheck(fr, st, "panic", e.posOf(x)) }

// acceptsCheck (accepts clauses): a raise site - a panic instruction or a call of a function that never
// returns, in the function under contract or in what is inlined into it - must be unreachable from an entry
// state that satisfies the clause.
func (e *Exec) acceptsCheck(fr *Frame, st *State, what, pos string) {
	root := e.rootFrame(fr)
	c := e.contractOf(root.fn)
	if c == nil || len(c.Accepts) == 0 || e.entry == nil {
		return
	}
	for i, cl := range c.Accepts {
		en := e.newEnv(root, e.entry, e.entry)
		en.inOld = true
		g := e.evalClause(en, cl)
		e.oblige(st, "accepts", clauseName(cl, i)+":"+what, Not(g), pos)
	}
}

func (e *Exec) exactShl(fr *Frame, x *ssa.BinOp, at *Term, n int64) {
	if !e.Opt.Exact {
		return
	}
	if ii, ok := intInfoOf(x.Type()); !ok || ii.bits != 64 {
		return
	}
	e.setExact(fr, x, App(SInt, "*", e.exOf(fr, x.X, at), BigLit(pow2(int(n)))))
}

// capturedOnly: a heap cell that exists only because closures of this
// function capture the variable: it is accessed by loads and stores of this
// function and by its closures, nothing else can reach it.
func capturedOnly(x *ssa.Alloc) bool {
	et := x.Type().(*types.Pointer).Elem()
	switch et.Underlying().(type) {
	case *types.Struct, *types.Array:
		return false
	}
	refs := x.Referrers()
	if refs == nil {
		return false
	}
	for _, r := range *refs {
		switch y := r.(type) {
		case *ssa.Store:
			if y.Addr != x {
				return false
			}
		case *ssa.UnOp, *ssa.DebugRef, *ssa.MakeClosure:
		default:
			return false
		}
	}
	return true
}

// onStore checks the contract's on-store assertions for a store to a struct field.
// sharedPrinter: the value is (or points into) the process-wide printer handed out by slip.DefaultPrinter().
func sharedPrinter(v ssa.Value, depth int) bool {
	if depth > 6 || v == nil {
		return false
	}
	switch x := v.(type) {
	case *ssa.Call:
		if f := x.Call.StaticCallee(); f != nil && f.Name() == "DefaultPrinter" && f.Pkg != nil && f.Pkg.Pkg != nil && f.Pkg.Pkg.Path() == ModPath {
			return true
		}
	case *ssa.FieldAddr:
		return sharedPrinter(x.X, depth+1)
	case *ssa.ChangeType:
		return sharedPrinter(x.X, depth+1)
	case *ssa.Phi:
		for _, ed := range x.Edges {
			if sharedPrinter(ed, depth+1) {
				return true
			}
		}
	case *ssa.UnOp:
		// a pointer variable kept in a cell (captured by a closure): what was stored into the cell
		if a, ok := x.X.(*ssa.Alloc); ok && x.Op == token.MUL && a.Referrers() != nil {
			for _, r := range *a.Referrers() {
				if sto, ok := r.(*ssa.Store); ok && sto.Addr == a && sharedPrinter(sto.Val, depth+1) {
					return true
				}
			}
		}
	}
	return false
}

// sharedPrinterTouch (package-wide clause shared-printer-kept): a store through the pointer that
// slip.DefaultPrinter() returns, or handing that pointer to a module function that stores to Printer fields,
// is counted in the ghost counter $nstore_sharedprinter.
func (e *Exec) sharedPrinterTouch(st *State, in ssa.Instruction) {
	const k = "L$nstore_sharedprinter"
	if st.heap[k] == nil {
		return
	}
	hit := false
	switch x := in.(type) {
	case *ssa.Store:
		hit = sharedPrinter(x.Addr, 0)
	case *ssa.Call:
		callee := x.Call.StaticCallee()
		if callee == nil || !inModule(callee) {
			break
		}
		for _, a := range x.Call.Args {
			if !sharedPrinter(a, 0) {
				continue
			}
			sp := e.P.SPkgs[ModPath]
			if sp == nil || sp.Pkg.Scope().Lookup("Printer") == nil {
				break
			}
			pfx := "F_" + structName(sp.Pkg.Scope().Lookup("Printer").Type()) + "_"
			for c := range e.P.ModSetOf(callee).Comps {
				if strings.HasPrefix(c, pfx) {
					hit = true
				}
			}
		}
	}
	if hit {
		st.heap[k] = e.def(SInt, Add(st.heap[k], IntLit(1)))
	}
}

func (e *Exec) onStore(fr *Frame, st *State, x *ssa.Store, c *Contract) {
	e.sharedPrinterTouch(st, x)
	if fa, ok := x.Addr.(*ssa.FieldAddr); ok && fr.parent == nil && allocRoot(fa.X) == nil {
		if stt := derefStruct(fa.X.Type()); stt != nil {
			if k := "L$nstore_" + stt.s.Field(fa.Field).Name(); st.heap[k] != nil {
				st.heap[k] = e.def(SInt, Add(st.heap[k], IntLit(1)))
			}
		}
	}
	if rc := e.contractOf(e.Root); rc != nil && len(rc.NoStores) > 0 {
		if fa, ok := x.Addr.(*ssa.FieldAddr); ok {
			if stt := derefStruct(fa.X.Type()); stt != nil {
				fname := stt.s.Field(fa.Field).Name()
				for _, ns := range rc.NoStores {
					if ns == fname || ns == stt.name+"."+fname {
						e.noStoreHit[ns] = true
						e.oblige(st, "no-store", ns, Not(st.pc), e.posOf(x))
					}
				}
			}
		}
	}
	if c == nil || len(c.OnStores) == 0 || fr.parent != nil {
		return
	}
	fa, ok := x.Addr.(*ssa.FieldAddr)
	if !ok {
		return
	}
	if allocRoot(fa.X) != nil {
		return // initialisation of a struct this function has just allocated, not an update
	}
	stt := derefStruct(fa.X.Type())
	if stt == nil {
		return
	}
	fname := stt.s.Field(fa.Field).Name()
	for i, os := range c.OnStores {
		field, konst := os.Field, ""
		if k := strings.Index(field, "="); k >= 0 {
			field, konst = field[:k], field[k+1:]
		}
		nth := 0
		if k := strings.Index(field, "#"); k >= 0 {
			fmt.Sscan(field[k+1:], &nth)
			field = field[:k]
		}
		if field != fname {
			continue
		}
		if nth != 0 && e.P.staticOrdinal(fr.fn, x, "store:"+fname) != nth {
			continue
		}
		if konst != "" {
			// only stores of the named package-level constant
			cv, isConst := x.Val.(*ssa.Const)
			nc, _ := fr.fn.Pkg.Members[konst].(*ssa.NamedConst)
			if !isConst || nc == nil || cv.Value == nil || nc.Value.Value == nil || cv.Value.ExactString() != nc.Value.Value.ExactString() {
				continue
			}
		}
		ft := stt.s.Field(fa.Field).Type()
		was := e.load(fr, st, e.val(fr, fa), ft)
		now := e.val(fr, x.Val)
		en := e.newEnv(fr, st, e.entry)
		en.point = x
		en.vars["was"] = ev{was, ft}
		en.vars["now"] = ev{now, ft}
		lbl := os.Label
		if lbl == "" {
			lbl = fmt.Sprint(i + 1)
		}
		g, applies := e.tryClause(en, os.Text, os.Expr)
		if !applies {
			continue
		}
		e.clauseUsed[os.Field+":"+lbl]++
		e.oblige(st, "on-store", os.Field+":"+lbl, g, e.posOf(x))
	}
}

// divFun: truncated division is the SMT definition, except for a non-constant divisor in a function whose
// contract asks for abstract division (the solvers are slow on div by a variable; the linear facts about the
// quotient are supplied where the code divides and where it multiplies the quotient back).
func (e *Exec) divFun(divisor ssa.Value) string {
	if _, isConst := divisor.(*ssa.Const); isConst {
		return "tdiv"
	}
	if c := e.contractOf(e.Root); c != nil && c.Options["abstract-div"] {
		if !e.declared["tdivu"] {
			e.declared["tdivu"] = true
			e.emit("(declare-fun tdivu (Int Int) Int)")
		}
		return "tdivu"
	}
	return "tdiv"
}
