package vc

import (
	"fmt"
	"strings"
	"go/types"

	"golang.org/x/tools/go/ssa"
)

// Maps: per map type three heap components indexed by the map reference:
// MD (domain), MV (values), ML (length). Keys are compared the way Go does for
// the modelled sorts (ints, string values, pointers, interface values).

type mapInfo struct {
	md, mv, ml string
	ks, vs     string
	ok         bool
}

func mapInfoOf(mt *types.Map) mapInfo {
	ks, vs := sortOf(mt.Key()), sortOf(mt.Elem())
	if ks == structSort || ks == tupleSort || vs == structSort || vs == tupleSort {
		return mapInfo{}
	}
	// one set of components per map type: maps of different Go types can never alias
	k := sanitize(shortType(mt))
	return mapInfo{md: "MD_" + k, mv: "MV_" + k, ml: "ML_" + k, ks: ks, vs: vs, ok: true}
}

func (mi mapInfo) mdSort() string { return ArrSort("(Array " + mi.ks + " Bool)") }
func (mi mapInfo) mvSort() string { return ArrSort("(Array " + mi.ks + " " + mi.vs + ")") }

func (e *Exec) mapInit(st *State, r *Term, t types.Type) {
	mi := mapInfoOf(t.Underlying().(*types.Map))
	if !mi.ok {
		return
	}
	md := e.heapRead(st, mi.md, mi.mdSort())
	ml := e.heapRead(st, mi.ml, ArrSort(SInt))
	empty := &Term{fmt.Sprintf("((as const (Array %s Bool)) false)", mi.ks), "(Array " + mi.ks + " Bool)"}
	st.heap[mi.md] = e.def(md.Sort, Store(md, r, empty))
	st.heap[mi.ml] = e.def(ml.Sort, Store(ml, r, IntLit(0)))
}

func sel2(arr, i, k *Term, sort string) *Term {
	return &Term{"(select (select " + arr.S + " " + i.S + ") " + k.S + ")", sort}
}

func (e *Exec) mapHas(st *State, m *Term, mt *types.Map, k *Term) *Term {
	mi := mapInfoOf(mt)
	if !mi.ok {
		return e.fresh(SBool, "maphas")
	}
	md := e.heapRead(st, mi.md, mi.mdSort())
	return And(Not(Eq(m, IntLit(0))), sel2(md, m, k, SBool))
}

func (e *Exec) mapValue(st *State, m *Term, mt *types.Map, k *Term) *Term {
	mi := mapInfoOf(mt)
	if !mi.ok {
		return e.fresh(sortOrInt(sortOf(mt.Elem())), "mapv")
	}
	mv := e.heapRead(st, mi.mv, mi.mvSort())
	z := e.asTerm(st, e.zeroOf(mt.Elem()), mt.Elem())
	return Ite(e.mapHas(st, m, mt, k), sel2(mv, m, k, mi.vs), z)
}

func (e *Exec) mapLen(st *State, m *Term, mt *types.Map) *Term {
	mi := mapInfoOf(mt)
	if !mi.ok {
		r := e.fresh(SInt, "maplen")
		e.emit("(assert (<= 0 %s))", r.S)
		return r
	}
	ml := e.heapRead(st, mi.ml, ArrSort(SInt))
	// map lengths are never negative
	e.emit("(assert (<= 0 %s))", Select(ml, m).S)
	return Ite(Eq(m, IntLit(0)), IntLit(0), Select(ml, m))
}

func (e *Exec) mapLookup(fr *Frame, st *State, x *ssa.Lookup) Value {
	e.hashKeyCheck(fr, st, x.Index, x)
	mt := x.X.Type().Underlying().(*types.Map)
	mi := mapInfoOf(mt)
	if !mi.ok {
		v := e.havocValue(mt.Elem(), st.pc, "mapv")
		if x.CommaOk {
			ok := e.fresh(SBool, "mapok")
			return &Tuple{Vs: []Value{e.iteValue(ok, v, e.zeroOf(mt.Elem())), ok}}
		}
		return v
	}
	m := e.term(fr, st, x.X)
	k := e.term(fr, st, x.Index)
	has := e.def(SBool, e.mapHas(st, m, mt, k))
	v := e.def(mi.vs, e.mapValue(st, m, mt, k))
	e.assumeLoaded(st, mt.Elem(), v)
	if x.CommaOk {
		return &Tuple{Vs: []Value{v, has}}
	}
	return v
}

func (e *Exec) mapUpdate(fr *Frame, st *State, x *ssa.MapUpdate) {
	e.onMapUpdate(fr, st, x)
	m := e.term(fr, st, x.Map)
	e.safety(st, "safe:nilmap", render(x.Map, 0), Not(Eq(m, IntLit(0))), e.posOf(x))
	e.assume(st.pc, Not(Eq(m, IntLit(0))))
	e.hashKeyCheck(fr, st, x.Key, x)
	mt := x.Map.Type().Underlying().(*types.Map)
	mi := mapInfoOf(mt)
	if !mi.ok {
		return
	}
	k := e.term(fr, st, x.Key)
	v := e.asTerm(st, e.val(fr, x.Value), mt.Elem())
	md := e.heapRead(st, mi.md, mi.mdSort())
	mv := e.heapRead(st, mi.mv, mi.mvSort())
	ml := e.heapRead(st, mi.ml, ArrSort(SInt))
	had := sel2(md, m, k, SBool)
	st.heap[mi.ml] = e.def(ml.Sort, Store(ml, m, Add(Select(ml, m), Ite(had, IntLit(0), IntLit(1)))))
	st.heap[mi.md] = e.def(md.Sort, Store(md, m, &Term{"(store " + Select(md, m).S + " " + k.S + " true)", "(Array " + mi.ks + " Bool)"}))
	st.heap[mi.mv] = e.def(mv.Sort, Store(mv, m, &Term{"(store " + Select(mv, m).S + " " + k.S + " " + v.S + ")", "(Array " + mi.ks + " " + mi.vs + ")"}))
}

func (e *Exec) mapDelete(fr *Frame, st *State, mv ssa.Value, kv ssa.Value) {
	mt := mv.Type().Underlying().(*types.Map)
	mi := mapInfoOf(mt)
	if !mi.ok {
		return
	}
	m := e.term(fr, st, mv)
	k := e.term(fr, st, kv)
	md := e.heapRead(st, mi.md, mi.mdSort())
	ml := e.heapRead(st, mi.ml, ArrSort(SInt))
	had := And(Not(Eq(m, IntLit(0))), sel2(md, m, k, SBool))
	// deleting from a nil map is a no-op: guard the stores
	nml := Ite(Eq(m, IntLit(0)), ml, Store(ml, m, Sub(Select(ml, m), Ite(had, IntLit(1), IntLit(0)))))
	nmd := Ite(Eq(m, IntLit(0)), md, Store(md, m, &Term{"(store " + Select(md, m).S + " " + k.S + " false)", "(Array " + mi.ks + " Bool)"}))
	st.heap[mi.ml] = e.def(ml.Sort, nml)
	st.heap[mi.md] = e.def(md.Sort, nmd)
}

func (e *Exec) mapClear(fr *Frame, st *State, mv ssa.Value) {
	mt, ok := mv.Type().Underlying().(*types.Map)
	if !ok {
		return
	}
	mi := mapInfoOf(mt)
	if !mi.ok {
		return
	}
	m := e.term(fr, st, mv)
	md := e.heapRead(st, mi.md, mi.mdSort())
	ml := e.heapRead(st, mi.ml, ArrSort(SInt))
	empty := &Term{fmt.Sprintf("((as const (Array %s Bool)) false)", mi.ks), "(Array " + mi.ks + " Bool)"}
	st.heap[mi.md] = e.def(md.Sort, Ite(Eq(m, IntLit(0)), md, Store(md, m, empty)))
	st.heap[mi.ml] = e.def(ml.Sort, Ite(Eq(m, IntLit(0)), ml, Store(ml, m, IntLit(0))))
}

// mapModComps: components written by an update/delete on a map of type t.
func mapModComps(t types.Type) []string {
	mt, ok := t.Underlying().(*types.Map)
	if !ok {
		return nil
	}
	mi := mapInfoOf(mt)
	if !mi.ok {
		return nil
	}
	return []string{mi.md, mi.mv, mi.ml}
}

// onMapUpdate checks the contract's on-map-update assertions: the map must
// have been loaded from the named struct field; $owner is the struct it was
// loaded from, $key / $value what is stored, $was the previous value (zero if absent).
func (e *Exec) onMapUpdate(fr *Frame, st *State, x *ssa.MapUpdate) {
	if fr.parent != nil {
		return
	}
	c := e.contractOf(fr.fn)
	if c == nil || len(c.OnMapUpdates) == 0 {
		return
	}
	mt, ok := x.Map.Type().Underlying().(*types.Map)
	if !ok {
		return
	}
	if pm, isParam := x.Map.(*ssa.Parameter); isParam {
		// a map handed in as a parameter: clauses name the parameter ($owner is the map itself)
		for i, om := range c.OnMapUpdates {
			if om.Field != pm.Name() {
				continue
			}
			m := e.term(fr, st, x.Map)
			k := e.term(fr, st, x.Key)
			en := e.newEnv(fr, st, e.entry)
			en.point = x
			en.vars["$key"] = ev{k, mt.Key()}
			en.vars["$value"] = ev{e.val(fr, x.Value), mt.Elem()}
			en.vars["$was"] = ev{e.mapValue(st, m, mt, k), mt.Elem()}
			en.vars["$had"] = ev{e.mapHas(st, m, mt, k), types.Typ[types.Bool]}
			en.vars["$owner"] = ev{m, x.Map.Type()}
			lbl := om.Label
			if lbl == "" {
				lbl = fmt.Sprint(i + 1)
			}
			e.clauseUsed["mapupd:"+om.Field+":"+lbl]++
			e.oblige(st, "on-map-update", om.Field+":"+lbl, e.evalClause(en, &Clause{Text: om.Text, Expr: om.Expr}), e.posOf(x))
		}
		return
	}
	ld, ok := x.Map.(*ssa.UnOp)
	if !ok {
		return
	}
	fa, ok := ld.X.(*ssa.FieldAddr)
	if !ok {
		return
	}
	stt := derefStruct(fa.X.Type())
	if stt == nil {
		return
	}
	fname := stt.s.Field(fa.Field).Name()
	ord := mapUpdateOrdinal(fr.fn, x, fname)
	for i, om := range c.OnMapUpdates {
		of := om.Field
		if j := strings.Index(of, "#"); j >= 0 {
			if of[j+1:] != fmt.Sprint(ord) {
				continue
			}
			of = of[:j]
		}
		if of != fname {
			continue
		}
		m := e.term(fr, st, x.Map)
		k := e.term(fr, st, x.Key)
		en := e.newEnv(fr, st, e.entry)
		en.point = x
		en.vars["$key"] = ev{k, mt.Key()}
		en.vars["$value"] = ev{e.val(fr, x.Value), mt.Elem()}
		en.vars["$was"] = ev{e.mapValue(st, m, mt, k), mt.Elem()}
		en.vars["$had"] = ev{e.mapHas(st, m, mt, k), types.Typ[types.Bool]}
		en.vars["$owner"] = ev{e.val(fr, fa.X), fa.X.Type()}
		lbl := om.Label
		if lbl == "" {
			lbl = fmt.Sprint(i + 1)
		}
		e.clauseUsed["mapupd:"+om.Field+":"+lbl]++
		e.oblige(st, "on-map-update", om.Field+":"+lbl, e.evalClause(en, &Clause{Text: om.Text, Expr: om.Expr}), e.posOf(x))
	}
}

// onMapDelete checks the contract's on-map-delete assertions: the map must have been loaded from the
// named struct field; $owner is the struct it was loaded from, $key the key, $was the value removed (zero if absent).
func (e *Exec) onMapDelete(fr *Frame, st *State, x ssa.Instruction, mapv, keyv ssa.Value) {
	if fr.parent != nil {
		return
	}
	c := e.contractOf(fr.fn)
	if c == nil || (len(c.OnMapDeletes) == 0 && len(c.NoMapDeletes) == 0) {
		return
	}
	ld, ok := mapv.(*ssa.UnOp)
	if !ok {
		return
	}
	fa, ok := ld.X.(*ssa.FieldAddr)
	if !ok {
		return
	}
	stt := derefStruct(fa.X.Type())
	if stt == nil {
		return
	}
	fname := stt.s.Field(fa.Field).Name()
	for _, nd := range c.NoMapDeletes {
		if nd == fname {
			e.confineHit["nomapdel:"+nd] = true
			e.oblige(st, "no-map-delete", nd, Not(st.pc), e.posOf(x))
		}
	}
	mt, ok := mapv.Type().Underlying().(*types.Map)
	if !ok {
		return
	}
	for i, om := range c.OnMapDeletes {
		if om.Field != fname {
			continue
		}
		m := e.term(fr, st, mapv)
		k := e.term(fr, st, keyv)
		en := e.newEnv(fr, st, e.entry)
		en.point = x
		en.vars["$key"] = ev{k, mt.Key()}
		en.vars["$was"] = ev{e.mapValue(st, m, mt, k), mt.Elem()}
		en.vars["$owner"] = ev{e.val(fr, fa.X), fa.X.Type()}
		lbl := om.Label
		if lbl == "" {
			lbl = fmt.Sprint(i + 1)
		}
		e.clauseUsed["mapdel:"+fname+":"+lbl]++
		e.oblige(st, "on-map-delete", fname+":"+lbl, e.evalClause(en, &Clause{Text: om.Text, Expr: om.Expr}), e.posOf(x))
	}
}

// mapUpdateOrdinal: 1-based rank of x among the map updates of fn (block order) whose map is loaded from field fname.
func mapUpdateOrdinal(fn *ssa.Function, x *ssa.MapUpdate, fname string) int {
	n := 0
	for _, b := range fn.Blocks {
		for _, in := range b.Instrs {
			mu, ok := in.(*ssa.MapUpdate)
			if !ok {
				continue
			}
			ld, ok := mu.Map.(*ssa.UnOp)
			if !ok {
				continue
			}
			fa, ok := ld.X.(*ssa.FieldAddr)
			if !ok {
				continue
			}
			stt := derefStruct(fa.X.Type())
			if stt == nil || stt.s.Field(fa.Field).Name() != fname {
				continue
			}
			n++
			if mu == x {
				return n
			}
		}
	}
	return 0
}
