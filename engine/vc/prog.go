package vc

import (
	"go/token"
	"go/ast"
	"time"
	"sync"
	"fmt"
	"go/types"
	"os"
	"sort"
	"strings"

	"golang.org/x/tools/go/packages"
	"golang.org/x/tools/go/ssa"
	"golang.org/x/tools/go/ssa/ssautil"
)

const ModPath = "github.com/ohler55/slip"

// Prog is the loaded real code of /repo (current working tree, -tags verif).
type Prog struct {
	Pkgs     []*packages.Package
	SSA      *ssa.Program
	SPkgs    map[string]*ssa.Package // by import path
	Funcs    map[string]*ssa.Function
	tags     map[string]int // type string -> tag id
	tagTypes []types.Type
	extTags  map[int]types.Type
	NoReturn map[*ssa.Function]bool
	mods     map[*ssa.Function]*ModSet
	implMemo map[string]bool
	RepoDir  string
	mu       sync.Mutex
	modMu    sync.Mutex
	ordMu    sync.Mutex
	PureMethods map[string]bool
	PureFuncs   map[string]bool
	ords     map[*ssa.Function]map[ssa.Instruction]map[string]int
}

// Load loads the given package patterns (relative to the module) from dir.
func Load(dir string, patterns ...string) (*Prog, error) {
	t0 := time.Now()
	env := append(os.Environ(), "GOFLAGS=-mod=mod", "GOPROXY=off", "GOTOOLCHAIN=local")
	cfg := &packages.Config{Mode: packages.LoadSyntax, Dir: dir, BuildFlags: []string{"-tags", "verif"}, Env: env}
	pkgs, err := packages.Load(cfg, patterns...)
	if err != nil {
		return nil, err
	}
	var errs []string
	packages.Visit(pkgs, nil, func(p *packages.Package) {
		if strings.HasPrefix(p.PkgPath, ModPath) {
			for _, e := range p.Errors {
				errs = append(errs, e.Error())
			}
		}
	})
	if len(errs) > 0 {
		return nil, fmt.Errorf("load errors: %s", strings.Join(errs, "; "))
	}
	prog, _ := ssautil.Packages(pkgs, ssa.InstantiateGenerics|ssa.BareInits|ssa.GlobalDebug)
	prog.Build()
	p := &Prog{Pkgs: pkgs, SSA: prog, SPkgs: map[string]*ssa.Package{}, Funcs: map[string]*ssa.Function{},
		tags: map[string]int{}, tagTypes: []types.Type{nil}, NoReturn: map[*ssa.Function]bool{},
		mods: map[*ssa.Function]*ModSet{}, implMemo: map[string]bool{}, RepoDir: dir, extTags: map[int]types.Type{}}
	for _, sp := range prog.AllPackages() {
		if sp.Pkg == nil || !strings.HasPrefix(sp.Pkg.Path(), ModPath) {
			continue
		}
		p.SPkgs[sp.Pkg.Path()] = sp
	}
	for fn := range ssautil.AllFunctions(prog) {
		if fn.Pkg == nil || fn.Pkg.Pkg == nil || !strings.HasPrefix(fn.Pkg.Pkg.Path(), ModPath) {
			continue
		}
		if fn.Synthetic != "" && !strings.HasPrefix(fn.Synthetic, "package init") {
			continue
		}
		p.Funcs[FuncName(fn)] = fn
		for _, b := range fn.Blocks {
			for _, in := range b.Instrs {
				if dr, ok := in.(*ssa.DebugRef); ok && !dr.IsAddr {
					if id, ok := dr.Expr.(*ast.Ident); ok {
						valNames.LoadOrStore(dr.X, id.Name)
					}
				}
			}
		}
	}
	t1 := time.Now()
	if os.Getenv("SLIPVC_TIMING") != "" {
		fmt.Fprintf(os.Stderr, "timing: load+ssa=%.1fs\n", t1.Sub(t0).Seconds())
	}
	p.numberModuleTypes()
	t2 := time.Now()
	p.inferNoReturn()
	if os.Getenv("SLIPVC_TIMING") != "" {
		fmt.Fprintf(os.Stderr, "timing: number=%.1fs noreturn=%.1fs\n", t2.Sub(t1).Seconds(), time.Since(t2).Seconds())
	}
	return p, nil
}

// FuncName gives the short stable name used in obligation names:
// "cl.(*When).Call", "slip.EvalArg", "cl.init#3$1".
func FuncName(fn *ssa.Function) string {
	s := fn.String()
	s = strings.ReplaceAll(s, ModPath+"/pkg/", "")
	s = strings.ReplaceAll(s, ModPath+"/", "")
	s = strings.ReplaceAll(s, ModPath, "slip")
	if strings.HasPrefix(s, "(") {
		// (*cl.When).Call -> cl.(*When).Call
		end := strings.Index(s, ")")
		inner := s[1:end]
		star := ""
		if strings.HasPrefix(inner, "*") {
			star = "*"
			inner = inner[1:]
		}
		if dot := strings.LastIndex(inner, "."); dot >= 0 {
			if star != "" {
				s = inner[:dot] + ".(*" + inner[dot+1:] + ")" + s[end+1:]
			} else {
				s = inner[:dot] + ".(" + inner[dot+1:] + ")" + s[end+1:]
			}
		}
	}
	return s
}

func shortType(t types.Type) string {
	s := types.TypeString(t, func(p *types.Package) string {
		pp := p.Path()
		if pp == ModPath {
			return "slip"
		}
		if strings.HasPrefix(pp, ModPath+"/pkg/") {
			return strings.TrimPrefix(pp, ModPath+"/pkg/")
		}
		return pp
	})
	return s
}

// Tag returns the integer tag of a concrete type (0 is the nil interface).
func (p *Prog) Tag(t types.Type) int {
	k := shortType(t)
	p.mu.Lock()
	defer p.mu.Unlock()
	if id, ok := p.tags[k]; ok {
		return id
	}
	// type outside the pre-numbered module types: deterministic id from its name
	id := 1000000 + int(hashString(k)%1000000000)
	for p.extTags[id] != nil {
		id++
	}
	p.tags[k] = id
	p.extTags[id] = t
	return id
}

// numberModuleTypes gives every named type of the module (and its pointer
// type) a stable tag, in sorted name order.
func (p *Prog) numberModuleTypes() {
	var names []string
	byName := map[string]types.Type{}
	for _, sp := range p.SPkgs {
		sc := sp.Pkg.Scope()
		for _, n := range sc.Names() {
			tn, ok := sc.Lookup(n).(*types.TypeName)
			if !ok || tn.IsAlias() {
				continue
			}
			if _, isIface := tn.Type().Underlying().(*types.Interface); isIface {
				continue
			}
			if nt, ok := tn.Type().(*types.Named); ok && nt.TypeParams().Len() > 0 {
				continue
			}
			for _, t := range []types.Type{tn.Type(), types.NewPointer(tn.Type())} {
				k := shortType(t)
				names = append(names, k)
				byName[k] = t
			}
		}
	}
	sort.Strings(names)
	for _, k := range names {
		if _, dup := p.tags[k]; dup {
			continue
		}
		p.tags[k] = len(p.tagTypes)
		p.tagTypes = append(p.tagTypes, byName[k])
	}
}

func (p *Prog) TagName(id int) string {
	if t := p.TagType(id); t != nil {
		return shortType(t)
	}
	if id == 0 {
		return "nil"
	}
	return fmt.Sprintf("unknown-type-%d", id)
}

func (p *Prog) TagType(id int) types.Type {
	p.mu.Lock()
	defer p.mu.Unlock()
	if id > 0 && id < len(p.tagTypes) {
		return p.tagTypes[id]
	}
	return p.extTags[id]
}

// Implements: does concrete type t implement interface type it?
func (p *Prog) Implements(t types.Type, it *types.Interface) bool {
	return types.Implements(t, it)
}

// inferNoReturn: a function is no-return when no Return instruction is
// reachable once edges after calls to no-return functions and after panic are
// cut. Least fixpoint from "nothing is no-return" would be wrong for mutual
// recursion, but there it only loses precision (sound).
func (p *Prog) inferNoReturn() {
	changed := true
	for changed {
		changed = false
		for _, fn := range p.Funcs {
			if p.NoReturn[fn] || len(fn.Blocks) == 0 {
				continue
			}
			if !p.canReturn(fn) {
				p.NoReturn[fn] = true
				changed = true
			}
		}
	}
}

func (p *Prog) canReturn(fn *ssa.Function) bool {
	if fn.Recover != nil {
		return true
	}
	seen := map[*ssa.BasicBlock]bool{}
	var visit func(b *ssa.BasicBlock) bool
	visit = func(b *ssa.BasicBlock) bool {
		if seen[b] {
			return false
		}
		seen[b] = true
		for _, in := range b.Instrs {
			switch x := in.(type) {
			case *ssa.Return:
				return true
			case *ssa.Panic:
				return false
			case *ssa.Call:
				if callee := x.Call.StaticCallee(); callee != nil && p.NoReturn[callee] {
					return false
				}
				if b, ok := x.Call.Value.(*ssa.Builtin); ok && b.Name() == "panic" {
					return false
				}
			}
		}
		for _, s := range b.Succs {
			if visit(s) {
				return true
			}
		}
		return false
	}
	return visit(fn.Blocks[0])
}

// ---------------------------------------------------------------------------
// Static modification sets (which heap components a function may write).

type ModSet struct {
	All   bool
	Comps map[string]bool
}

func (m *ModSet) add(o *ModSet) {
	if o.All {
		m.All = true
	}
	for c := range o.Comps {
		m.Comps[c] = true
	}
}

func (m *ModSet) String() string {
	if m.All {
		return "ALL"
	}
	var ks []string
	for k := range m.Comps {
		ks = append(ks, k)
	}
	sort.Strings(ks)
	return strings.Join(ks, ",")
}

// compForAddr computes statically the heap component a Store through addr
// writes; "" when unknown.
func (p *Prog) compForAddr(addr ssa.Value) string {
	switch a := addr.(type) {
	case *ssa.FieldAddr:
		st := derefStruct(a.X.Type())
		if st == nil {
			return ""
		}
		ft := st.s.Field(a.Field).Type()
		if _, isStruct := ft.Underlying().(*types.Struct); isStruct {
			return "" // store of whole struct: treated as unknown
		}
		return fieldComp(st.name, a.Field)
	case *ssa.IndexAddr:
		var et types.Type
		switch u := a.X.Type().Underlying().(type) {
		case *types.Slice:
			et = u.Elem()
		case *types.Pointer:
			if arr, ok := u.Elem().Underlying().(*types.Array); ok {
				et = arr.Elem()
			}
		}
		if et == nil {
			return ""
		}
		if _, isStruct := et.Underlying().(*types.Struct); isStruct {
			return ""
		}
		return arrComp(et)
	case *ssa.Alloc:
		return "$local"
	case *ssa.Global:
		return "G_" + a.Pkg.Pkg.Name() + "." + a.Name()
	}
	// pointer of unknown origin (param, load, phi)
	if pt, ok := addr.Type().Underlying().(*types.Pointer); ok {
		if _, isStruct := pt.Elem().Underlying().(*types.Struct); !isStruct {
			return "P_" + sortKey(sortOf(pt.Elem()))
		}
	}
	return ""
}

type namedStruct struct {
	name string
	s    *types.Struct
}

func derefStruct(t types.Type) *namedStruct {
	pt, ok := t.Underlying().(*types.Pointer)
	if !ok {
		return nil
	}
	st, ok := pt.Elem().Underlying().(*types.Struct)
	if !ok {
		return nil
	}
	return &namedStruct{name: structName(pt.Elem()), s: st}
}

func structName(t types.Type) string {
	if n, ok := t.(*types.Named); ok {
		return sanitize(shortType(n))
	}
	if a, ok := t.(*types.Alias); ok {
		return structName(types.Unalias(a))
	}
	return "anon" + fmt.Sprintf("%x", hashString(t.String()))
}

func hashString(s string) uint32 {
	var h uint32 = 2166136261
	for i := 0; i < len(s); i++ {
		h ^= uint32(s[i])
		h *= 16777619
	}
	return h
}

func fieldComp(structName string, field int) string {
	return fmt.Sprintf("F_%s_%d", structName, field)
}

// arrComp: the heap component holding the backing arrays whose elements have
// Go type et. Arrays of slices are kept apart by element type: Go has no
// conversion between slices of different element types, so a [][]rune and a
// [][][]rune can never share a backing array.
func arrComp(et types.Type) string {
	s := sortOf(et)
	if s == SSl {
		return "A_Sl_" + sanitize(canonType(et))
	}
	return "A_" + sortKey(s)
}

func canonType(t types.Type) string {
	switch u := types.Unalias(t).Underlying().(type) {
	case *types.Slice:
		return "s" + canonType(u.Elem())
	case *types.Basic:
		switch u.Kind() {
		case types.Uint8:
			return "uint8"
		case types.Int32:
			return "int32"
		}
		return u.Name()
	case *types.Pointer:
		return "p" + canonType(u.Elem())
	case *types.Interface:
		if u.Empty() {
			return "any"
		}
	}
	return shortType(types.Unalias(t))
}

func sortKey(sort string) string {
	switch sort {
	case SInt:
		return "Int"
	case SBool:
		return "Bool"
	case SObj:
		return "Obj"
	case SSl:
		return "Sl"
	}
	return sanitize(sort)
}

// ModSetOf computes (memoised, transitive over static calls) the set of heap
// components fn may write. Dynamic calls give All.
func (p *Prog) ModSetOf(fn *ssa.Function) *ModSet {
	p.modMu.Lock()
	defer p.modMu.Unlock()
	return p.modSetOf(fn)
}

func (p *Prog) modSetOf(fn *ssa.Function) *ModSet {
	if m, ok := p.mods[fn]; ok {
		return m
	}
	m := &ModSet{Comps: map[string]bool{}}
	p.mods[fn] = m // recursion guard: in-progress set (under-approximates in cycles; fixed below)
	if fn.Pkg == nil || fn.Pkg.Pkg == nil || !strings.HasPrefix(fn.Pkg.Pkg.Path(), ModPath) || len(fn.Blocks) == 0 {
		// function outside the module (or without body): assumed effect
		if pureExternal(fn) {
			return m
		}
		m.All = true
		return m
	}
	for _, b := range fn.Blocks {
		for _, in := range b.Instrs {
			// no early exit when everything is modified: the components the function stores to itself are still
			// needed (stable-struct fields survive an opaque call only if the callee does not write them)
			p.instrMods(in, m)
		}
	}
	for _, an := range fn.AnonFuncs {
		// closures created here may run later; be conservative
		m.add(p.modSetOf(an))
	}
	return m
}

// InstrMods is the locked entry point for instrMods.
func (p *Prog) InstrMods(in ssa.Instruction, m *ModSet) {
	p.modMu.Lock()
	defer p.modMu.Unlock()
	p.instrMods(in, m)
}

func (p *Prog) instrMods(in ssa.Instruction, m *ModSet) {
	switch x := in.(type) {
	case *ssa.UnOp:
		// loading an array value makes a snapshot row
		if x.Op == token.MUL {
			if et, ok := arrayElem(x.Type()); ok {
				m.Comps[arrComp(et)] = true
			}
		}
	case *ssa.Store:
		if et, ok := arrayElem(x.Val.Type()); ok {
			m.Comps[arrComp(et)] = true // an array value is copied into the variable's row
		}
		c := p.compForAddr(x.Addr)
		if c == "" {
			m.All = true
		} else if c != "$local" {
			m.Comps[c] = true
		}
	case *ssa.MapUpdate:
		for _, c := range mapModComps(x.Map.Type()) {
			m.Comps[c] = true
		}
	case *ssa.Send:
		m.All = true
	case *ssa.Go:
		m.All = true
	case *ssa.Defer:
		p.callMods(&x.Call, m)
	case *ssa.Call:
		p.callMods(&x.Call, m)
	}
}

func (p *Prog) callMods(c *ssa.CallCommon, m *ModSet) {
	if b, ok := c.Value.(*ssa.Builtin); ok {
		switch b.Name() {
		case "append", "copy":
			if len(c.Args) > 0 {
				if sl, ok := c.Args[0].Type().Underlying().(*types.Slice); ok {
					m.Comps[arrComp(sl.Elem())] = true
				}
			}
		case "delete", "clear":
			if len(c.Args) > 0 {
				for _, cc := range mapModComps(c.Args[0].Type()) {
					m.Comps[cc] = true
				}
			}
		}
		return
	}
	callee := c.StaticCallee()
	if callee == nil {
		if c.Method != nil {
			if n, ok := c.Value.Type().(*types.Named); ok {
				if p.PureMethods[n.Obj().Name()+"."+c.Method.Name()] || n.Obj().Name() == "Locker" {
					return // assumed pure (listed in the evidence)
				}
			}
		}
		m.All = true
		return
	}
	if p.NoReturn[callee] {
		return
	}
	if p.PureFuncs[FuncName(callee)] {
		return // assumed pure (listed in the evidence)
	}
	if bigRecvKind(callee) == "Int" && bigMutators[callee.Name()] {
		m.Comps[bigComp] = true // value model of *big.Int
	}
	m.add(p.modSetOf(callee))
}

// pureExternal: external (non-module) functions known not to write memory
// reachable from slip data (assumed; listed in evidence as trusted).
func pureExternal(fn *ssa.Function) bool {
	if fn.Pkg == nil || fn.Pkg.Pkg == nil {
		return false
	}
	switch fn.Pkg.Pkg.Path() {
	case "strings", "strconv", "unicode", "unicode/utf8", "math", "math/bits", "fmt", "bytes", "errors", "time", "sort", "slices", "path/filepath", "regexp", "os", "reflect", "math/big", "sync", "sync/atomic":
		return true
	}
	return false
}

// ExternalPure reports whether a callee outside the module is treated as not
// modifying slip-visible heap (bytes.Buffer / big.Int receivers aside).
func (p *Prog) ExternalPure(fn *ssa.Function) bool { return pureExternal(fn) }

// staticOrdinal: 1-based rank of instruction in among the instructions of fn
// (in block/instruction order) that can generate an obligation with the same
// base name.
func (p *Prog) staticOrdinal(fn *ssa.Function, in ssa.Instruction, base string) int {
	p.ordMu.Lock()
	defer p.ordMu.Unlock()
	if p.ords == nil {
		p.ords = map[*ssa.Function]map[ssa.Instruction]map[string]int{}
	}
	m, ok := p.ords[fn]
	if !ok {
		m = map[ssa.Instruction]map[string]int{}
		counts := map[string]int{}
		for _, b := range fn.Blocks {
			for _, i2 := range b.Instrs {
				for _, bs := range oblBases(i2) {
					counts[bs]++
					if m[i2] == nil {
						m[i2] = map[string]int{}
					}
					m[i2][bs] = counts[bs]
				}
			}
		}
		p.ords[fn] = m
	}
	if n, ok := m[in][base]; ok {
		return n
	}
	return 1
}

// oblBases lists the kind@anchor bases an instruction can generate.
func oblBases(in ssa.Instruction) []string {
	switch x := in.(type) {
	case *ssa.IndexAddr:
		return []string{"safe:index@" + render(x, 0)}
	case *ssa.Index:
		return []string{"safe:index@" + render(x, 0)}
	case *ssa.Lookup:
		if isString(x.X.Type()) {
			return []string{"safe:index@" + render(x, 0)}
		}
		return []string{"safe:hashkey@" + render(x.Index, 0)}
	case *ssa.Slice:
		return []string{"safe:slice@" + render(x, 0)}
	case *ssa.TypeAssert:
		return []string{"safe:assert@" + render(x, 0)}
	case *ssa.MakeSlice:
		return []string{"safe:makeslice@" + render(x.Len, 0)}
	case *ssa.MapUpdate:
		return []string{"safe:nilmap@" + render(x.Map, 0), "safe:hashkey@" + render(x.Key, 0)}
	case *ssa.BinOp:
		r := render(x, 0)
		return []string{"safe:div@" + r, "exact:add@" + r, "exact:sub@" + r, "exact:mul@" + r, "exact:quo@" + r, "exact:shl@" + r, "exact:compare@" + render(x.X, 0), "exact:compare@" + render(x.Y, 0)}
	case *ssa.UnOp:
		return []string{"exact:neg@" + render(x, 0)}
	case *ssa.Call:
		r := render(x, 0)
		return []string{"safe:call@" + r, "fresh-recv@" + r, "frame:append@" + r, "frame:copy@" + r, "operand-kept@" + r, "operand-kept@" + r + ":out1", "operand-kept@" + r + ":out2"}
	case *ssa.Store:
		out := []string{"frame:store@" + render(x.Addr, 0)}
		if fa, ok := x.Addr.(*ssa.FieldAddr); ok {
			if st := derefStruct(fa.X.Type()); st != nil {
				out = append(out, "store:"+st.s.Field(fa.Field).Name())
			}
		}
		return out
	}
	return nil
}
