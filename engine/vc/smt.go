// Package vc is the verification-condition generator of slipvc: go/ssa of the
// real code in /repo -> SMT-LIB obligations, discharged by z3 / z3-new / cvc5.
package vc

import (
	"bytes"
	"context"
	"fmt"
	"os"
	"os/exec"
	"strings"
	"sync"
	"time"
)

// Term is an SMT-LIB term with its sort.
type Term struct {
	S    string
	Sort string
}

const (
	SInt  = "Int"
	SBool = "Bool"
	SObj  = "Obj"
	SSl   = "Sl"
)

func ArrSort(elem string) string { return "(Array Int " + elem + ")" }

func T(sort, f string, a ...any) *Term { return &Term{S: fmt.Sprintf(f, a...), Sort: sort} }
func IntLit(n int64) *Term {
	if n < 0 {
		return &Term{S: fmt.Sprintf("(- %d)", -n), Sort: SInt}
	}
	return &Term{S: fmt.Sprintf("%d", n), Sort: SInt}
}
func BigLit(s string) *Term {
	if strings.HasPrefix(s, "-") {
		return &Term{S: "(- " + s[1:] + ")", Sort: SInt}
	}
	return &Term{S: s, Sort: SInt}
}

var (
	True  = &Term{"true", SBool}
	False = &Term{"false", SBool}
)

func And(ts ...*Term) *Term {
	var parts []string
	for _, t := range ts {
		if t == nil || t.S == "true" {
			continue
		}
		if t.S == "false" {
			return False
		}
		parts = append(parts, t.S)
	}
	switch len(parts) {
	case 0:
		return True
	case 1:
		return &Term{parts[0], SBool}
	}
	return &Term{"(and " + strings.Join(parts, " ") + ")", SBool}
}
func Or(ts ...*Term) *Term {
	var parts []string
	for _, t := range ts {
		if t == nil || t.S == "false" {
			continue
		}
		if t.S == "true" {
			return True
		}
		parts = append(parts, t.S)
	}
	switch len(parts) {
	case 0:
		return False
	case 1:
		return &Term{parts[0], SBool}
	}
	return &Term{"(or " + strings.Join(parts, " ") + ")", SBool}
}
func Not(t *Term) *Term {
	switch t.S {
	case "true":
		return False
	case "false":
		return True
	}
	if strings.HasPrefix(t.S, "(not ") {
		return &Term{t.S[5 : len(t.S)-1], SBool}
	}
	return &Term{"(not " + t.S + ")", SBool}
}
func Implies(a, b *Term) *Term {
	if a.S == "true" {
		return b
	}
	if b.S == "true" {
		return True
	}
	return &Term{"(=> " + a.S + " " + b.S + ")", SBool}
}
func Eq(a, b *Term) *Term {
	if a.S == b.S {
		return True
	}
	return &Term{"(= " + a.S + " " + b.S + ")", SBool}
}
func Ite(c, a, b *Term) *Term {
	if c.S == "true" {
		return a
	}
	if c.S == "false" {
		return b
	}
	if a.S == b.S {
		return a
	}
	return &Term{"(ite " + c.S + " " + a.S + " " + b.S + ")", a.Sort}
}
func App(sort, f string, args ...*Term) *Term {
	var sb strings.Builder
	sb.WriteString("(" + f)
	for _, a := range args {
		sb.WriteByte(' ')
		sb.WriteString(a.S)
	}
	sb.WriteByte(')')
	return &Term{sb.String(), sort}
}
func Le(a, b *Term) *Term  { return App(SBool, "<=", a, b) }
func Lt(a, b *Term) *Term  { return App(SBool, "<", a, b) }
func Add(a, b *Term) *Term { return App(SInt, "+", a, b) }
func Sub(a, b *Term) *Term { return App(SInt, "-", a, b) }
func Select(arr, i *Term) *Term {
	// arr sort "(Array Int X)"
	es := strings.TrimSuffix(strings.TrimPrefix(arr.Sort, "(Array Int "), ")")
	return &Term{"(select " + arr.S + " " + i.S + ")", es}
}
func Store(arr, i, v *Term) *Term {
	return &Term{"(store " + arr.S + " " + i.S + " " + v.S + ")", arr.Sort}
}

// Prelude: sorts and helper functions shared by every script.
const Prelude = `(declare-datatypes ((Sl 0)) (((mk-sl (sl-id Int) (sl-off Int) (sl-len Int) (sl-cap Int)))))
(declare-datatypes ((Obj 0)) (((mk-obj (o-tag Int) (o-int Int) (o-sl Sl)))))
(define-fun nil-sl () Sl (mk-sl 0 0 0 0))
(define-fun nil-obj () Obj (mk-obj 0 0 nil-sl))
(define-fun sl-ok ((s Sl)) Bool (and (<= 0 (sl-id s)) (<= 0 (sl-off s)) (<= 0 (sl-len s)) (<= (sl-len s) (sl-cap s)) (<= (+ (sl-off s) (sl-cap s)) 281474976710656) (=> (= (sl-id s) 0) (= (sl-cap s) 0))))
(define-fun tdiv ((x Int) (y Int)) Int (ite (>= x 0) (ite (> y 0) (div x y) (- (div x (- y)))) (ite (> y 0) (- (div (- x) y)) (div (- x) (- y)))))
(define-fun trem ((x Int) (y Int)) Int (- x (* y (tdiv x y))))
(define-fun wrapS ((x Int) (h Int)) Int (- (mod (+ x h) (* 2 h)) h))
(define-fun wrapU ((x Int) (m Int)) Int (mod x m))
(define-fun wrap1S ((x Int) (h Int)) Int (ite (>= x h) (- x (* 2 h)) (ite (< x (- h)) (+ x (* 2 h)) x)))
(define-fun wrap1U ((x Int) (m Int)) Int (ite (>= x m) (- x m) (ite (< x 0) (+ x m) x)))
(declare-fun slen (Int) Int)
(declare-fun sat (Int Int) Int)
(declare-fun scat (Int Int) Int)
(declare-fun ssub (Int Int Int) Int)
(declare-fun uf_and (Int Int) Int)
(declare-fun uf_or (Int Int) Int)
(declare-fun uf_xor (Int Int) Int)
(declare-fun uf_shl (Int Int) Int)
(declare-fun uf_shr (Int Int) Int)
(declare-fun uf_andnot (Int Int) Int)
(declare-fun str_lt (Int Int) Bool)
(declare-fun owned (Int) Bool)
`

// ---------------------------------------------------------------------------
// Solvers

type Solver struct {
	Name string
	Cmd  []string
}

var Solvers = []Solver{
	{"z3-new", []string{"z3-new", "-in", "-smt2"}},
	{"z3", []string{"z3", "-in", "-smt2"}},
	{"cvc5", []string{"cvc5", "--lang=smt2", "--incremental", "--produce-models"}},
}

type SolveResult struct {
	Status string // unsat | sat | unknown | timeout | error
	Solver string
	Secs   float64
	Out    string // raw output (models)
}

// RunSolver runs one script on one solver with a timeout and returns the list
// of check-sat answers (one per check-sat in the script) and the raw output.
func RunSolver(sv Solver, script string, timeout time.Duration) (answers []string, raw string, secs float64) {
	ctx, cancel := context.WithTimeout(context.Background(), timeout)
	defer cancel()
	cmd := exec.CommandContext(ctx, sv.Cmd[0], sv.Cmd[1:]...)
	cmd.Stdin = strings.NewReader(script)
	var out bytes.Buffer
	cmd.Stdout = &out
	cmd.Stderr = &out
	cmd.WaitDelay = time.Second
	t0 := time.Now()
	_ = cmd.Run()
	secs = time.Since(t0).Seconds()
	raw = out.String()
	for _, line := range strings.Split(raw, "\n") {
		line = strings.TrimSpace(line)
		switch line {
		case "sat", "unsat", "unknown", "timeout":
			answers = append(answers, line)
		}
	}
	return
}

// Race runs a single-query script on all solvers concurrently; the first
// unsat (or, if wantModel, the first sat) wins.
func Race(script string, timeout time.Duration, solvers []Solver) SolveResult {
	type res struct {
		r SolveResult
	}
	ch := make(chan SolveResult, len(solvers))
	ctx, cancel := context.WithCancel(context.Background())
	defer cancel()
	var wg sync.WaitGroup
	for _, sv := range solvers {
		wg.Add(1)
		go func(sv Solver) {
			defer wg.Done()
			c2, cancel2 := context.WithTimeout(ctx, timeout)
			defer cancel2()
			cmd := exec.CommandContext(c2, sv.Cmd[0], sv.Cmd[1:]...)
			cmd.Stdin = strings.NewReader(script)
			var out bytes.Buffer
			cmd.Stdout = &out
			cmd.Stderr = &out
			cmd.WaitDelay = time.Second
			t0 := time.Now()
			_ = cmd.Run()
			secs := time.Since(t0).Seconds()
			raw := out.String()
			first := strings.TrimSpace(strings.SplitN(raw, "\n", 2)[0])
			st := "unknown"
			switch first {
			case "sat", "unsat", "unknown":
				st = first
			default:
				if c2.Err() != nil {
					st = "timeout"
				} else {
					st = "error"
				}
			}
			ch <- SolveResult{Status: st, Solver: sv.Name, Secs: secs, Out: raw}
		}(sv)
	}
	go func() { wg.Wait(); close(ch) }()
	var best SolveResult
	best.Status = "unknown"
	for r := range ch {
		if r.Status == "unsat" || r.Status == "sat" {
			cancel()
			return r
		}
		if best.Solver == "" || (best.Status == "error" && r.Status != "error") {
			best = r
		}
	}
	return best
}

func DumpScript(dir, name, script string) string {
	_ = os.MkdirAll(dir, 0o755)
	p := dir + "/" + sanitize(name) + ".smt2"
	_ = os.WriteFile(p, []byte(script), 0o644)
	return p
}

func sanitize(s string) string {
	var sb strings.Builder
	for _, r := range s {
		switch {
		case r >= 'a' && r <= 'z', r >= 'A' && r <= 'Z', r >= '0' && r <= '9', r == '_', r == '-', r == '.':
			sb.WriteRune(r)
		default:
			sb.WriteByte('_')
		}
	}
	return sb.String()
}
