package vc

import (
	"os"
	"regexp"
	"crypto/sha256"
	"fmt"
	"sort"
	"strings"
	"time"

	"golang.org/x/tools/go/ssa"
)

type FuncResult struct {
	Fn       string        `json:"fn"`
	Err      string        `json:"err,omitempty"`
	Obls     []*Obligation `json:"-"`
	Notes    []string      `json:"notes,omitempty"`
	Secs     float64       `json:"secs"`
	Dropped  []string      `json:"dropped_candidates,omitempty"`
	Kept     []string      `json:"kept_candidates,omitempty"`
	SSAHash  string        `json:"ssa_hash"`
	Rounds   int           `json:"houdini_rounds"`
	ScriptKB int           `json:"script_kb"`
	Lines    []string      `json:"-"`
}

type SolveOpts struct {
	TimeoutMs   int  // per check-sat in the incremental pass
	RaceTimeout time.Duration
	Models      bool // fetch models for failed obligations
	KeepScripts string
	CandTimeoutMs int
	// ExpectFail: obligations known not to discharge (canaries, baseline
	// failures): solved once with a short timeout, no second chance.
	ExpectFail func(name string) bool
}

// SSAHash is a hash of the function's SSA text (instruction stream).
func SSAHash(fn *ssa.Function) string {
	var sb strings.Builder
	fn.WriteTo(&sb)
	h := sha256.Sum256([]byte(sb.String()))
	return fmt.Sprintf("%x", h[:8])
}

var (
	shapePhiRe   = regexp.MustCompile(` #[A-Za-z_][A-Za-z0-9_.$]*$`)
	shapeAllocRe = regexp.MustCompile(` \([A-Za-z_][A-Za-z0-9_.$ ]*\)$`)
)

// ShapeHash is a hash of the function's SSA with every source-level name of a local erased (debug
// references dropped, parameters numbered, phi / alloc comments removed), together with the shapes of the
// module functions it calls statically (two levels). Two trees with the same shape hash run the same code:
// they can differ only in the names of locals, comments and layout.
func ShapeHash(fn *ssa.Function) string {
	seen := map[*ssa.Function]bool{}
	var sb strings.Builder
	var walk func(f *ssa.Function, depth int)
	walk = func(f *ssa.Function, depth int) {
		if f == nil || seen[f] || len(f.Blocks) == 0 {
			return
		}
		seen[f] = true
		params := map[string]string{}
		for i, p := range f.Params {
			params[p.Name()] = fmt.Sprintf("p%d", i)
		}
		for i, p := range f.FreeVars {
			params[p.Name()] = fmt.Sprintf("fv%d", i)
		}
		fmt.Fprintf(&sb, "func %s\n", f.Signature.String())
		var callees []*ssa.Function
		for _, b := range f.Blocks {
			fmt.Fprintf(&sb, "b%d:\n", b.Index)
			for _, in := range b.Instrs {
				if _, ok := in.(*ssa.DebugRef); ok {
					continue
				}
				line := in.String()
				line = shapePhiRe.ReplaceAllString(line, "")
				line = shapeAllocRe.ReplaceAllString(line, "")
				if len(params) > 0 {
					toks := strings.FieldsFunc(line, func(r rune) bool { return r == ' ' || r == ',' || r == '(' || r == ')' || r == '[' || r == ']' || r == ':' })
					_ = toks
					for name, repl := range params {
						line = replaceWord(line, name, repl)
					}
				}
				if v, ok := in.(ssa.Value); ok {
					sb.WriteString(v.Name() + " = ")
				}
				sb.WriteString(line + "\n")
				// go/ssa abbreviates long constants when printing: the full value is part of the shape
				for _, op := range in.Operands(nil) {
					if op == nil || *op == nil {
						continue
					}
					if cv, ok := (*op).(*ssa.Const); ok && cv.Value != nil && len(cv.Value.ExactString()) > 16 {
						ch := sha256.Sum256([]byte(cv.Value.ExactString()))
						fmt.Fprintf(&sb, "  const %x\n", ch[:6])
					}
				}
				if c, ok := in.(ssa.CallInstruction); ok {
					if cal := c.Common().StaticCallee(); cal != nil && cal.Pkg != nil && cal.Pkg.Pkg != nil && strings.HasPrefix(cal.Pkg.Pkg.Path(), ModPath) {
						callees = append(callees, cal)
					}
				}
			}
		}
		for _, an := range f.AnonFuncs {
			walk(an, depth)
		}
		if depth < 2 {
			for _, cal := range callees {
				walk(cal, depth+1)
			}
		}
	}
	walk(fn, 0)
	h := sha256.Sum256([]byte(sb.String()))
	return fmt.Sprintf("%x", h[:8])
}

func replaceWord(s, w, repl string) string {
	if !strings.Contains(s, w) {
		return s
	}
	var sb strings.Builder
	i := 0
	isId := func(c byte) bool { return c == '_' || c == '$' || c == '.' || (c >= '0' && c <= '9') || (c >= 'a' && c <= 'z') || (c >= 'A' && c <= 'Z') }
	for i < len(s) {
		j := strings.Index(s[i:], w)
		if j < 0 {
			sb.WriteString(s[i:])
			break
		}
		j += i
		before := j == 0 || !isId(s[j-1])
		after := j+len(w) >= len(s) || !isId(s[j+len(w)])
		sb.WriteString(s[i:j])
		if before && after {
			sb.WriteString(repl)
		} else {
			sb.WriteString(w)
		}
		i = j + len(w)
	}
	return sb.String()
}

// script assembles an incremental script for the given obligations.
func script(lines []string, obls []*Obligation, timeoutMs int) string {
	var sb strings.Builder
	sb.WriteString("(set-option :print-success false)\n")
	if timeoutMs > 0 {
		fmt.Fprintf(&sb, "(set-option :timeout %d)\n", timeoutMs)
	}
	sorted := append([]*Obligation{}, obls...)
	sort.SliceStable(sorted, func(i, j int) bool { return sorted[i].At < sorted[j].At })
	at := 0
	for _, o := range sorted {
		for ; at < o.At && at < len(lines); at++ {
			sb.WriteString(lines[at])
			sb.WriteByte('\n')
		}
		fmt.Fprintf(&sb, "(push 1)\n(assert (not %s))\n(check-sat)\n(pop 1)\n", o.Goal)
	}
	return sb.String()
}

// Standalone builds a single-goal script (with get-value for the asked terms).
func Standalone(lines []string, o *Obligation, withModel bool, logic string) string {
	var sb strings.Builder
	if withModel {
		sb.WriteString("(set-option :produce-models true)\n")
	}
	if logic != "" {
		sb.WriteString("(set-logic " + logic + ")\n")
	}
	for i := 0; i < o.At && i < len(lines); i++ {
		sb.WriteString(lines[i])
		sb.WriteByte('\n')
	}
	fmt.Fprintf(&sb, "(assert (not %s))\n(check-sat)\n", o.Goal)
	if withModel && len(o.Ask) > 0 {
		fmt.Fprintf(&sb, "(get-value (%s))\n", strings.Join(o.Ask, " "))
	} else if withModel {
		// no terms were asked for: the values of the function's parameters (and their lengths) describe the refuting call
		var ps []string
		for i := 0; i < o.At && i < len(lines) && len(ps) < 24; i++ {
			l := lines[i]
			if !strings.HasPrefix(l, "(declare-const p_") {
				continue
			}
			f := strings.Fields(l)
			if len(f) < 3 {
				continue
			}
			name, sort := f[1], strings.TrimSuffix(strings.Join(f[2:], " "), ")")
			switch sort {
			case "Int", "Bool":
				ps = append(ps, name)
			case "Sl":
				ps = append(ps, "(sl-len "+name+")")
			case "Obj":
				ps = append(ps, "(o-tag "+name+")", "(o-int "+name+")")
			}
		}
		if len(ps) > 0 {
			fmt.Fprintf(&sb, "(get-value (%s))\n", strings.Join(ps, " "))
		}
	}
	return sb.String()
}

func solveIncremental(lines []string, obls []*Obligation, so *SolveOpts) {
	if len(obls) == 0 {
		return
	}
	sorted := append([]*Obligation{}, obls...)
	sort.SliceStable(sorted, func(i, j int) bool { return sorted[i].At < sorted[j].At })
	sc := script(lines, sorted, so.TimeoutMs)
	total := time.Duration(so.TimeoutMs*len(sorted)+5000) * time.Millisecond
	answers, raw, secs := RunSolver(Solvers[0], sc, total)
	if len(answers) != len(sorted) && strings.Contains(raw, "error") && len(answers) == 0 {
		for _, o := range sorted {
			o.Status = "unknown"
			o.Model = firstLines(raw, 5)
		}
		return
	}
	for i, o := range sorted {
		if i < len(answers) {
			switch answers[i] {
			case "unsat":
				o.Status = "discharged"
			case "sat":
				o.Status = "failed"
			default:
				o.Status = "unknown"
			}
		} else {
			o.Status = "unknown"
		}
		o.Solver = Solvers[0].Name
		o.Secs = secs / float64(len(sorted))
	}
}

func firstLines(s string, n int) string {
	ls := strings.Split(s, "\n")
	if len(ls) > n {
		ls = ls[:n]
	}
	return strings.Join(ls, "\n")
}

// VerifyFunc: Houdini over the automatic candidates, then all obligations.
func VerifyFunc(p *Prog, fn *ssa.Function, opt Options, so *SolveOpts) *FuncResult {
	t0 := time.Now()
	res := &FuncResult{Fn: FuncName(fn), SSAHash: ShapeHash(fn)}
	disabled := map[string]bool{}
	for k, v := range opt.Disabled {
		disabled[k] = v
	}
	var e *Exec
	for round := 0; round < 12; round++ {
		res.Rounds = round + 1
		o2 := opt
		o2.Disabled = disabled
		e = NewExec(p, &o2)
		if err := e.RunFunction(fn); err != nil {
			res.Err = err.Error()
			res.Secs = time.Since(t0).Seconds()
			return res
		}
		var cands []*Obligation
		for _, o := range e.Obls {
			if o.Cand != "" && !o.Trivial {
				cands = append(cands, o)
			}
		}
		if len(cands) == 0 {
			break
		}
		cso := *so
		if so.CandTimeoutMs > 0 {
			cso.TimeoutMs = so.CandTimeoutMs
		} else {
			cso.TimeoutMs = 1000
		}
		solveIncremental(e.lines, cands, &cso)
		// a quantified candidate on which the first solver gives up at once (z3 5.x: "incomplete (theory array)"
		// on lambda stores) gets a second chance on the other z3 before it is dropped
		retried := 0
		for _, o := range cands {
			if o.Status != "discharged" && !disabled[o.Cand] && len(Solvers) > 1 && retried < 4 && (strings.Contains(o.Cand, ":keeps-prefix") || strings.Contains(o.Cand, ":own")) {
				retried++
				r := Race(Standalone(e.lines, o, false, ""), 2*time.Second, Solvers[1:2])
				if os.Getenv("SLIPVC_CANDDUMP") != "" {
					fmt.Fprintf(os.Stderr, "candidate retry r%d %s %s: was %s, %s says %s\n", round, o.Kind, o.Cand, o.Status, r.Solver, r.Status)
				}
				if r.Status == "unsat" {
					o.Status, o.Solver, o.Secs = "discharged", r.Solver, r.Secs
				}
			}
		}
		dropped := false
		for _, o := range cands {
			if o.Status != "discharged" && !disabled[o.Cand] {
				disabled[o.Cand] = true
				dropped = true
				if d := os.Getenv("SLIPVC_CANDDUMP"); d != "" {
					DumpScript(d, fmt.Sprintf("r%d_%s_%s", round, o.Kind, o.Cand), Standalone(e.lines, o, true, ""))
				}
			}
		}
		if !dropped {
			break
		}
	}
	for k := range disabled {
		res.Dropped = append(res.Dropped, k)
	}
	sort.Strings(res.Dropped)
	res.Kept = e.Cands
	var rest, normal, expectFail []*Obligation
	for _, o := range e.Obls {
		if o.Cand == "" {
			rest = append(rest, o)
			if o.Trivial {
				continue
			}
			if so.ExpectFail != nil && so.ExpectFail(o.Name) {
				expectFail = append(expectFail, o)
			} else {
				normal = append(normal, o)
			}
		}
	}
	solveIncremental(e.lines, normal, so)
	if len(expectFail) > 0 {
		fso := *so
		fso.TimeoutMs = 800
		solveIncremental(e.lines, expectFail, &fso)
	}
	// second chance for non-discharged obligations: race all solvers standalone
	for _, o := range normal {
		if o.Status == "discharged" {
			continue
		}
		sc := Standalone(e.lines, o, so.Models, "")
		r := Race(sc, so.RaceTimeout, Solvers[:2])
		switch r.Status {
		case "unsat":
			o.Status = "discharged"
			o.Solver = r.Solver
			o.Secs = r.Secs
		case "sat":
			o.Status = "failed"
			o.Solver = r.Solver
			o.Secs = r.Secs
			o.Model = modelLines(r.Out)
		default:
			o.Status = "unknown"
			o.Model = firstLines(r.Out, 3)
		}
	}
	res.Obls = rest
	res.Notes = e.Notes
	res.Lines = e.lines
	n := 0
	for _, l := range e.lines {
		n += len(l)
	}
	res.ScriptKB = n / 1024
	res.Secs = time.Since(t0).Seconds()
	return res
}

func modelLines(out string) string {
	i := strings.Index(out, "\n")
	if i < 0 {
		return ""
	}
	m := strings.TrimSpace(out[i+1:])
	if len(m) > 2000 {
		m = m[:2000]
	}
	return m
}
