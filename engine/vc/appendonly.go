package vc

import (
	"fmt"
	"go/types"
	"strings"

	"golang.org/x/tools/go/ssa"
)

// Family "append-only" (C03 / C15): a function of the shape f([recv,] b []byte, ...) []byte writes its text
// after what the buffer already holds. Obligation at every return: the result is at least as long as b was
// and its first len(b) bytes are the bytes b had at entry. Assumed of every call that has the same shape
// (assume / guarantee: every such function of the module is itself under this obligation; the library
// functions of that shape — strconv.Append*, utf8.AppendRune, (*big.Int).Append, fmt.Append* ... — are assumed
// to behave as documented and are listed in the evidence).

type aoPre struct {
	arg   *Term   // the buffer handed to an append-shaped callee (nil for any other call)
	heap  *Term   // the byte arrays before the call
	given []*Term // ids of the byte arrays handed to the callee
}

func isByteSlice(t types.Type) bool {
	sl, ok := t.Underlying().(*types.Slice)
	if !ok {
		return false
	}
	b, ok := sl.Elem().Underlying().(*types.Basic)
	return ok && b.Kind() == types.Uint8
}

// AppendShape: index (among fn.Params, receiver included) of the buffer parameter of an append-shaped
// function, or -1.
func AppendShape(fn *ssa.Function) int {
	sig := fn.Signature
	if sig.Results().Len() != 1 || !isByteSlice(sig.Results().At(0).Type()) || sig.Params().Len() == 0 {
		return -1
	}
	if !isByteSlice(sig.Params().At(0).Type()) {
		return -1
	}
	// the buffer parameter is called b / buf / out / dst by convention; a []byte -> []byte function with another
	// name for it (makeToken(src), bytes.ToLower(s)) is a transformation, not an appender
	switch sig.Params().At(0).Name() {
	case "b", "buf", "out", "dst":
	default:
		return -1
	}
	if sig.Recv() != nil {
		return 1
	}
	return 0
}

func byteComp() string { return arrComp(types.Typ[types.Uint8]) }

func (e *Exec) aoHeap(st *State) *Term {
	return e.heapRead(st, byteComp(), ArrSort(ArrSort(SInt)))
}

// aoPrefix: r (read in heap hr) starts with the bytes b had in heap hb.
func aoPrefix(r, hr, b, hb *Term) *Term {
	q := fmt.Sprintf("(forall ((j!ao Int)) (=> (and (<= 0 j!ao) (< j!ao (sl-len %s))) (= (select (select %s (sl-id %s)) (+ (sl-off %s) j!ao)) (select (select %s (sl-id %s)) (+ (sl-off %s) j!ao)))))",
		b.S, hr.S, r.S, r.S, hb.S, b.S, b.S)
	return And(Le(App(SInt, "sl-len", b), App(SInt, "sl-len", r)), &Term{q, SBool})
}

// aoEntry records the entry buffer of a function under the append-only contract.
func (e *Exec) aoEntry(fr *Frame, st *State, fn *ssa.Function, c *Contract) {
	if c == nil || !c.Options["append-only"] {
		return
	}
	k := AppendShape(fn)
	if k < 0 || k >= len(fn.Params) {
		return
	}
	e.aoB0 = e.term(fr, st, fn.Params[k])
	e.aoH0 = e.aoHeap(st)
}

// aoReturn: the obligation at a return of the function under contract.
func (e *Exec) aoReturn(fr *Frame, st *State, res []Value) {
	if e.aoB0 == nil || fr.parent != nil || len(res) != 1 {
		return
	}
	r, ok := res[0].(*Term)
	if !ok || r.Sort != SSl {
		return
	}
	e.oblige(st, "post", "appends-only", aoPrefix(r, e.aoHeap(st), e.aoB0, e.aoH0), "")
}

// aoBefore: a call of an append-shaped function that is not inlined — remember its buffer argument.
func (e *Exec) aoBefore(fr *Frame, st *State, x *ssa.Call) *aoPre {
	if e.aoB0 == nil {
		return nil
	}
	c := &x.Call
	if _, isB := c.Value.(*ssa.Builtin); isB {
		return nil
	}
	if callee := c.StaticCallee(); callee != nil && inModule(callee) && e.contractOf(callee) == nil && e.canInline(fr, callee) {
		return nil // its body is executed: nothing to assume
	}
	// every call that is not inlined: the byte arrays of this activation that are not handed over keep their bytes
	pre := &aoPre{heap: e.aoHeap(st)}
	for _, a := range c.Args {
		if isByteSlice(a.Type()) {
			pre.given = append(pre.given, App(SInt, "sl-id", e.term(fr, st, a)))
		}
	}
	if c.Method != nil && isByteSlice(c.Value.Type()) {
		pre.given = append(pre.given, App(SInt, "sl-id", e.term(fr, st, c.Value)))
	}
	if ap := e.aoShapeArg(fr, x); ap != nil {
		pre.arg = e.term(fr, st, ap)
	}
	return pre
}

// aoShapeArg: the buffer argument when the call is of an append-shaped function whose result is the buffer.
func (e *Exec) aoShapeArg(fr *Frame, x *ssa.Call) ssa.Value {
	c := &x.Call
	if !isByteSlice(x.Type()) {
		return nil
	}
	var arg ssa.Value
	if callee := c.StaticCallee(); callee != nil {
		k := AppendShape(callee)
		if k < 0 || k >= len(c.Args) {
			return nil
		}
		if !inModule(callee) && !strings.HasPrefix(callee.Name(), "Append") {
			return nil
		}
		arg = c.Args[k]
	} else if c.Method != nil {
		// interface method: Append / Readably / ScopedAppend ... with the buffer first
		sig, ok := c.Method.Type().(*types.Signature)
		if !ok || sig.Params().Len() == 0 || !isByteSlice(sig.Params().At(0).Type()) || sig.Results().Len() != 1 {
			return nil
		}
		if len(c.Args) == 0 {
			return nil
		}
		arg = c.Args[0]
	} else {
		return nil
	}
	return arg
}

// aoAfter: what the callee wrote comes after what its buffer held.
func (e *Exec) aoAfter(fr *Frame, st *State, x *ssa.Call, pre *aoPre) {
	if pre == nil {
		return
	}
	now := e.aoHeap(st)
	if now.S != pre.heap.S {
		// ownership of print buffers (assumed, listed): the buffer this function was handed and the byte arrays
		// it allocated itself are not reachable from Lisp objects or globals, so a callee that is not given one of
		// them leaves its bytes alone
		conds := []*Term{Or(&Term{fmt.Sprintf("(= a!ao (sl-id %s))", e.aoB0.S), SBool}, &Term{fmt.Sprintf("(<= %s a!ao)", e.heapRead(e.entry, "$alloc", SInt).S), SBool})}
		for _, g := range pre.given {
			conds = append(conds, &Term{fmt.Sprintf("(not (= a!ao %s))", g.S), SBool})
		}
		e.emit("(assert (=> %s (forall ((a!ao Int)) (! (=> %s (= (select %s a!ao) (select %s a!ao))) :pattern ((select %s a!ao))))))",
			st.pc.S, And(conds...).S, now.S, pre.heap.S, now.S)
	}
	if pre.arg == nil {
		return
	}
	r := e.term(fr, st, x)
	if r.Sort != SSl {
		return
	}
	e.assume(st.pc, aoPrefix(r, now, pre.arg, pre.heap))
	e.aoAssumed++
}
