package vc

import (
	"fmt"
	"go/types"
	"strings"

	"golang.org/x/tools/go/ssa"
)

// Family O (operands kept): math/big numbers are mutable objects and slip
// numbers are pointers to them. A number that existed when the function under
// contract was entered (an argument, or anything reachable from one) must
// never be the target of a mutating math/big method. The contents of the big
// numbers are not modelled; what is modelled is which object a method writes:
//   - big.NewInt / NewRat / NewFloat return a new object;
//   - the arithmetic methods write their receiver (and the extra result
//     parameters of QuoRem / DivMod / GCD) and return the receiver;
//   - Rat.Num / Rat.Denom return objects that belong to their receiver.

var bigMutators = map[string]bool{
	"Abs": true, "Add": true, "And": true, "AndNot": true, "Binomial": true, "Div": true, "DivMod": true, "Exp": true,
	"GCD": true, "Lsh": true, "Mod": true, "ModInverse": true, "ModSqrt": true, "Mul": true, "MulRange": true, "Neg": true,
	"Not": true, "Or": true, "Quo": true, "QuoRem": true, "Rand": true, "Rem": true, "Rsh": true, "Set": true, "SetBit": true,
	"SetBits": true, "SetBytes": true, "SetInt64": true, "SetString": true, "SetUint64": true, "Sqrt": true, "Sub": true, "Xor": true,
	"Inv": true, "SetFloat64": true, "SetFrac": true, "SetFrac64": true, "SetInt": true, "SetRat": true,
	"Copy": true, "SetInf": true, "SetMantExp": true, "SetMode": true, "SetPrec": true, "Parse": true, "Scan": true,
	"UnmarshalText": true, "UnmarshalJSON": true, "GobDecode": true,
}

func bigRecvKind(callee *ssa.Function) string {
	if callee.Pkg == nil || callee.Pkg.Pkg == nil || callee.Pkg.Pkg.Path() != "math/big" {
		return ""
	}
	recv := callee.Signature.Recv()
	if recv == nil {
		return ""
	}
	p, ok := recv.Type().(*types.Pointer)
	if !ok {
		return ""
	}
	n, ok := p.Elem().(*types.Named)
	if !ok {
		return ""
	}
	switch n.Obj().Name() {
	case "Int", "Rat", "Float":
		return n.Obj().Name()
	}
	return ""
}

func isBigPtr(t types.Type) bool {
	p, ok := t.(*types.Pointer)
	if !ok {
		return false
	}
	n, ok := p.Elem().(*types.Named)
	if !ok || n.Obj().Pkg() == nil || n.Obj().Pkg().Path() != "math/big" {
		return false
	}
	switch n.Obj().Name() {
	case "Int", "Rat", "Float":
		return true
	}
	return false
}

// mineTerm: the object with this id was allocated by the activation under
// proof, or handed over to it by its caller (uninterpreted owned, constrained
// only by the contract's requires clauses).
func (e *Exec) mineTerm(id *Term) *Term {
	return Or(Le(e.heapRead(e.entry, "$alloc", SInt), id), App(SBool, "owned", id))
}

func bigName(t types.Type) string {
	if p, ok := t.(*types.Pointer); ok {
		if n, ok := p.Elem().(*types.Named); ok {
			return n.Obj().Name()
		}
	}
	return ""
}

// Value model of *big.Int (assumed contract of math/big): heap component BIGV
// maps the object to the mathematical integer it holds.
const bigComp = "BIGV"

func (e *Exec) bigGet(st *State, p *Term) *Term {
	return Select(e.heapRead(st, bigComp, ArrSort(SInt)), p)
}

func (e *Exec) bigSet(st *State, p *Term, v *Term) {
	h := e.heapRead(st, bigComp, ArrSort(SInt))
	st.heap[bigComp] = e.def(h.Sort, Store(h, p, v))
}

func (e *Exec) ptrTerm(fr *Frame, st *State, v ssa.Value) *Term {
	switch x := e.val(fr, v).(type) {
	case *Term:
		if x.Sort == SInt {
			return x
		}
	case *Loc:
		return e.locAsTerm(st, x)
	}
	return nil
}

// bigIntValue gives the Int methods their meaning over BIGV. Returns false when the method is not modelled.
func (e *Exec) bigIntValue(fr *Frame, st *State, x *ssa.Call, name string) (Value, bool) {
	args := x.Call.Args
	ptr := func(i int) *Term {
		if i >= len(args) {
			return nil
		}
		return e.ptrTerm(fr, st, args[i])
	}
	val := func(i int) *Term {
		p := ptr(i)
		if p == nil {
			return nil
		}
		return e.def(SInt, e.bigGet(st, p))
	}
	z := ptr(0)
	if z == nil {
		return nil, false
	}
	set := func(v *Term) (Value, bool) {
		e.bigSet(st, z, e.def(SInt, v))
		return e.val(fr, args[0]), true
	}
	abs := func(t *Term) *Term { return Ite(Lt(t, IntLit(0)), App(SInt, "-", t), t) }
	switch name {
	case "Add", "Sub", "Mul":
		a, b := val(1), val(2)
		if a == nil || b == nil {
			return nil, false
		}
		switch name {
		case "Add":
			return set(Add(a, b))
		case "Sub":
			return set(Sub(a, b))
		}
		return set(App(SInt, "*", a, b))
	case "Neg", "Abs", "Set":
		a := val(1)
		if a == nil {
			return nil, false
		}
		switch name {
		case "Neg":
			return set(App(SInt, "-", a))
		case "Abs":
			return set(abs(a))
		}
		return set(a)
	case "SetInt64":
		v, ok := e.val(fr, args[1]).(*Term)
		if !ok {
			return nil, false
		}
		return set(v)
	case "Quo", "Rem", "QuoRem", "Div", "Mod", "DivMod":
		a, b := val(1), val(2)
		if a == nil || b == nil {
			return nil, false
		}
		// q, r with a = q*b + r; truncated (Quo/Rem): |r| < |b|, r has the sign of a; Euclidean (Div/Mod): 0 <= r < |b|.
		// (division by zero panics in math/big: the model assumes b != 0 from here on)
		q, r := e.fresh(SInt, "bq"), e.fresh(SInt, "br")
		e.assume(st.pc, Not(Eq(b, IntLit(0))))
		e.assume(st.pc, Eq(a, Add(App(SInt, "*", q, b), r)))
		e.assume(st.pc, Lt(abs(r), abs(b)))
		if name == "Div" || name == "Mod" || name == "DivMod" {
			e.assume(st.pc, Le(IntLit(0), r))
		} else {
			e.assume(st.pc, Or(Eq(r, IntLit(0)), Eq(Lt(r, IntLit(0)), Lt(a, IntLit(0)))))
		}
		switch name {
		case "Quo", "Div":
			return set(q)
		case "Rem", "Mod":
			return set(r)
		}
		rp := ptr(3)
		if rp == nil {
			return nil, false
		}
		e.bigSet(st, z, q)
		e.bigSet(st, rp, r)
		return &Tuple{Vs: []Value{e.val(fr, args[0]), e.val(fr, args[3])}}, true
	case "Lsh", "Rsh":
		a := val(1)
		c, ok := args[2].(*ssa.Const)
		if a == nil || !ok || c.Value == nil {
			return nil, false
		}
		n := c.Int64()
		if n < 0 || n > 62 {
			return nil, false
		}
		p2 := IntLit(int64(1) << uint(n))
		if name == "Lsh" {
			return set(App(SInt, "*", a, p2))
		}
		return set(App(SInt, "div", a, p2)) // floor division: Rsh is an arithmetic shift
	}
	return nil, false
}

// bigIntQuery: the reading methods of *big.Int over BIGV.
func (e *Exec) bigIntQuery(fr *Frame, st *State, x *ssa.Call, name string) (Value, bool) {
	args := x.Call.Args
	p := e.ptrTerm(fr, st, args[0])
	if p == nil {
		return nil, false
	}
	a := e.def(SInt, e.bigGet(st, p))
	sign := func(t *Term) *Term { return Ite(Lt(t, IntLit(0)), IntLit(-1), Ite(Eq(t, IntLit(0)), IntLit(0), IntLit(1))) }
	switch name {
	case "Sign":
		return e.def(SInt, sign(a)), true
	case "Cmp", "CmpAbs":
		q := e.ptrTerm(fr, st, args[1])
		if q == nil {
			return nil, false
		}
		b := e.def(SInt, e.bigGet(st, q))
		if name == "CmpAbs" {
			abs := func(t *Term) *Term { return Ite(Lt(t, IntLit(0)), App(SInt, "-", t), t) }
			return e.def(SInt, sign(Sub(abs(a), abs(b)))), true
		}
		return e.def(SInt, sign(Sub(a, b))), true
	case "IsInt64":
		return e.def(SBool, And(Le(BigLit("-"+pow2(63)), a), Lt(a, BigLit(pow2(63))))), true
	case "Int64":
		return e.def(SInt, App(SInt, "wrapS", a, BigLit(pow2(63)))), true
	case "Bit":
		c, ok := args[1].(*ssa.Const)
		if !ok || c.Value == nil || c.Int64() != 0 {
			return nil, false
		}
		return e.def(SInt, App(SInt, "mod", a, IntLit(2))), true
	}
	return nil, false
}

// bigCall models the calls into math/big (third result: handled).
func (e *Exec) bigCall(fr *Frame, st *State, x *ssa.Call, callee *ssa.Function) (Value, bool, bool) {
	if callee.Pkg == nil || callee.Pkg.Pkg == nil || callee.Pkg.Pkg.Path() != "math/big" {
		return nil, true, false
	}
	name := callee.Name()
	if callee.Signature.Recv() == nil {
		switch name {
		case "NewInt", "NewRat", "NewFloat":
			for _, a := range x.Call.Args {
				e.exactUse(fr, st, a, "arg")
			}
			p := e.alloc(st, "big")
			if name == "NewInt" {
				if v, ok := e.val(fr, x.Call.Args[0]).(*Term); ok {
					e.bigSet(st, p, v)
				}
			}
			return p, true, true
		}
		return nil, true, false
	}
	kind := bigRecvKind(callee)
	if kind == "" {
		return nil, true, false
	}
	args := x.Call.Args
	if kind == "Int" && !bigMutators[name] {
		if v, ok := e.bigIntQuery(fr, st, x, name); ok {
			return v, true, true
		}
	}
	if !bigMutators[name] {
		if kind == "Float" && name == "Int" && len(args) == 2 {
			// (*Float).Int(z): writes z when given, else a new Int
			res := e.callResult(st, x).(*Tuple)
			if c, ok := args[1].(*ssa.Const); ok && c.IsNil() {
				res.Vs[0] = e.alloc(st, "big")
			} else {
				if e.Opt.OperandsKept {
					goal := False
					switch wv := e.val(fr, args[1]).(type) {
					case *Loc:
						goal = True
					case *Term:
						goal = e.mineTerm(wv)
					}
					e.oblige(st, "operand-kept", render(x, 0), goal, e.posOf(x))
				}
				res.Vs[0] = e.val(fr, args[1])
			}
			return res, true, true
		}
		return nil, true, false
	}
	for _, a := range args[1:] {
		e.exactUse(fr, st, a, "arg")
	}
	// written objects: the receiver, and the extra result parameters
	written := []ssa.Value{args[0]}
	switch name {
	case "QuoRem", "DivMod":
		if len(args) == 4 {
			written = append(written, args[3])
		}
	case "GCD":
		if len(args) == 5 {
			written = append(written, args[1], args[2])
		}
	}
	// the property speaks of integers and ratios: long-float receivers (precision changes) are not under this contract
	if e.Opt.OperandsKept && kind != "Float" {
		for i, w := range written {
			anchor := render(x, 0)
			if i > 0 {
				anchor += fmt.Sprintf(":out%d", i)
			}
			var goal *Term
			switch wv := e.val(fr, w).(type) {
			case *Loc:
				goal = True // a local variable of this activation
			case *Term:
				// nil extra result parameters are not written
				goal = Or(Eq(wv, IntLit(0)), e.mineTerm(wv))
				if i == 0 {
					goal = e.mineTerm(wv)
				}
			default:
				goal = False
			}
			e.oblige(st, "operand-kept", anchor, goal, e.posOf(x))
		}
	}
	if kind == "Int" {
		if v, ok := e.bigIntValue(fr, st, x, name); ok {
			return v, true, true
		}
		// not modelled: the written objects hold an unknown value now
		for _, w := range written {
			if p := e.ptrTerm(fr, st, w); p != nil {
				e.bigSet(st, p, e.fresh(SInt, "bigv"))
			}
		}
	}
	e.argsEscape(fr, st, &x.Call)
	// the method returns its receiver
	rt := x.Type()
	if tt, ok := rt.(*types.Tuple); ok {
		if tt.Len() == 0 {
			return nil, true, true
		}
		res := e.callResult(st, x).(*Tuple)
		if isBigPtr(tt.At(0).Type()) {
			if rv, ok := e.val(fr, args[0]).(*Term); ok {
				res.Vs[0] = rv
			} else {
				res.Vs[0] = e.val(fr, args[0])
			}
		}
		return res, true, true
	}
	if isBigPtr(rt) {
		return e.val(fr, args[0]), true, true
	}
	return e.callResult(st, x), true, true
}

var _ = strings.HasPrefix

// CallsBigMutator: does fn (or a closure defined in it) contain a static call of a mutating math/big method?
func CallsBigMutator(fn *ssa.Function) bool {
	for _, b := range fn.Blocks {
		for _, in := range b.Instrs {
			c, ok := in.(*ssa.Call)
			if !ok {
				continue
			}
			callee := c.Call.StaticCallee()
			if callee == nil {
				continue
			}
			if bigRecvKind(callee) != "" && (bigMutators[callee.Name()] || (callee.Name() == "Int" && len(c.Call.Args) == 2)) {
				return true
			}
		}
	}
	for _, an := range fn.AnonFuncs {
		if CallsBigMutator(an) {
			return true
		}
	}
	return false
}
