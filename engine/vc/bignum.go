package vc

import (
	"fmt"
	"go/types"
	"strings"

	"golang.org/x/tools/go/ssa"
)

// Family O (operands kept): math/big numbers are mutable objects and slip
// numbers are pointers to them. A number that existed when the function under
// contract was entered (an argument, or anything reachable from one) must
// never be the target of a mutating math/big method. The contents of the big
// numbers are not modelled; what is modelled is which object a method writes:
//   - big.NewInt / NewRat / NewFloat return a new object;
//   - the arithmetic methods write their receiver (and the extra result
//     parameters of QuoRem / DivMod / GCD) and return the receiver;
//   - Rat.Num / Rat.Denom return objects that belong to their receiver.

var bigMutators = map[string]bool{
	"Abs": true, "Add": true, "And": true, "AndNot": true, "Binomial": true, "Div": true, "DivMod": true, "Exp": true,
	"GCD": true, "Lsh": true, "Mod": true, "ModInverse": true, "ModSqrt": true, "Mul": true, "MulRange": true, "Neg": true,
	"Not": true, "Or": true, "Quo": true, "QuoRem": true, "Rand": true, "Rem": true, "Rsh": true, "Set": true, "SetBit": true,
	"SetBits": true, "SetBytes": true, "SetInt64": true, "SetString": true, "SetUint64": true, "Sqrt": true, "Sub": true, "Xor": true,
	"Inv": true, "SetFloat64": true, "SetFrac": true, "SetFrac64": true, "SetInt": true, "SetRat": true,
	"Copy": true, "SetInf": true, "SetMantExp": true, "SetMode": true, "SetPrec": true, "Parse": true, "Scan": true,
	"UnmarshalText": true, "UnmarshalJSON": true, "GobDecode": true,
}

func bigRecvKind(callee *ssa.Function) string {
	if callee.Pkg == nil || callee.Pkg.Pkg == nil || callee.Pkg.Pkg.Path() != "math/big" {
		return ""
	}
	recv := callee.Signature.Recv()
	if recv == nil {
		return ""
	}
	p, ok := recv.Type().(*types.Pointer)
	if !ok {
		return ""
	}
	n, ok := p.Elem().(*types.Named)
	if !ok {
		return ""
	}
	switch n.Obj().Name() {
	case "Int", "Rat", "Float":
		return n.Obj().Name()
	}
	return ""
}

func isBigPtr(t types.Type) bool {
	p, ok := t.(*types.Pointer)
	if !ok {
		return false
	}
	n, ok := p.Elem().(*types.Named)
	if !ok || n.Obj().Pkg() == nil || n.Obj().Pkg().Path() != "math/big" {
		return false
	}
	switch n.Obj().Name() {
	case "Int", "Rat", "Float":
		return true
	}
	return false
}

// mineTerm: the object with this id was allocated by the activation under
// proof, or handed over to it by its caller (uninterpreted owned, constrained
// only by the contract's requires clauses).
func (e *Exec) mineTerm(id *Term) *Term {
	return Or(Le(e.heapRead(e.entry, "$alloc", SInt), id), App(SBool, "owned", id))
}

// bigCall models the calls into math/big (third result: handled).
func (e *Exec) bigCall(fr *Frame, st *State, x *ssa.Call, callee *ssa.Function) (Value, bool, bool) {
	if callee.Pkg == nil || callee.Pkg.Pkg == nil || callee.Pkg.Pkg.Path() != "math/big" {
		return nil, true, false
	}
	name := callee.Name()
	if callee.Signature.Recv() == nil {
		switch name {
		case "NewInt", "NewRat", "NewFloat":
			for _, a := range x.Call.Args {
				e.exactUse(fr, st, a, "arg")
			}
			return e.alloc(st, "big"), true, true
		}
		return nil, true, false
	}
	kind := bigRecvKind(callee)
	if kind == "" {
		return nil, true, false
	}
	args := x.Call.Args
	if !bigMutators[name] {
		if kind == "Float" && name == "Int" && len(args) == 2 {
			// (*Float).Int(z): writes z when given, else a new Int
			res := e.callResult(st, x).(*Tuple)
			if c, ok := args[1].(*ssa.Const); ok && c.IsNil() {
				res.Vs[0] = e.alloc(st, "big")
			} else {
				if e.Opt.OperandsKept {
					goal := False
					switch wv := e.val(fr, args[1]).(type) {
					case *Loc:
						goal = True
					case *Term:
						goal = e.mineTerm(wv)
					}
					e.oblige(st, "operand-kept", render(x, 0), goal, e.posOf(x))
				}
				res.Vs[0] = e.val(fr, args[1])
			}
			return res, true, true
		}
		return nil, true, false
	}
	for _, a := range args[1:] {
		e.exactUse(fr, st, a, "arg")
	}
	// written objects: the receiver, and the extra result parameters
	written := []ssa.Value{args[0]}
	switch name {
	case "QuoRem", "DivMod":
		if len(args) == 4 {
			written = append(written, args[3])
		}
	case "GCD":
		if len(args) == 5 {
			written = append(written, args[1], args[2])
		}
	}
	// the property speaks of integers and ratios: long-float receivers (precision changes) are not under this contract
	if e.Opt.OperandsKept && kind != "Float" {
		for i, w := range written {
			anchor := render(x, 0)
			if i > 0 {
				anchor += fmt.Sprintf(":out%d", i)
			}
			var goal *Term
			switch wv := e.val(fr, w).(type) {
			case *Loc:
				goal = True // a local variable of this activation
			case *Term:
				// nil extra result parameters are not written
				goal = Or(Eq(wv, IntLit(0)), e.mineTerm(wv))
				if i == 0 {
					goal = e.mineTerm(wv)
				}
			default:
				goal = False
			}
			e.oblige(st, "operand-kept", anchor, goal, e.posOf(x))
		}
	}
	e.argsEscape(fr, st, &x.Call)
	// the method returns its receiver
	rt := x.Type()
	if tt, ok := rt.(*types.Tuple); ok {
		if tt.Len() == 0 {
			return nil, true, true
		}
		res := e.callResult(st, x).(*Tuple)
		if isBigPtr(tt.At(0).Type()) {
			if rv, ok := e.val(fr, args[0]).(*Term); ok {
				res.Vs[0] = rv
			} else {
				res.Vs[0] = e.val(fr, args[0])
			}
		}
		return res, true, true
	}
	if isBigPtr(rt) {
		return e.val(fr, args[0]), true, true
	}
	return e.callResult(st, x), true, true
}

var _ = strings.HasPrefix

// CallsBigMutator: does fn (or a closure defined in it) contain a static call of a mutating math/big method?
func CallsBigMutator(fn *ssa.Function) bool {
	for _, b := range fn.Blocks {
		for _, in := range b.Instrs {
			c, ok := in.(*ssa.Call)
			if !ok {
				continue
			}
			callee := c.Call.StaticCallee()
			if callee == nil {
				continue
			}
			if bigRecvKind(callee) != "" && (bigMutators[callee.Name()] || (callee.Name() == "Int" && len(c.Call.Args) == 2)) {
				return true
			}
		}
	}
	for _, an := range fn.AnonFuncs {
		if CallsBigMutator(an) {
			return true
		}
	}
	return false
}
