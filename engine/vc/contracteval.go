package vc

import (
	"strconv"
	"os"
	"sort"
	"fmt"
	"go/ast"
	"go/types"
	"strings"

	"golang.org/x/tools/go/ssa"
)

// Expr is a parsed contract expression (see contractparse.go).
type Expr interface{}

type ev struct {
	v Value
	t types.Type // nil for ghost integers / booleans
}

type evalEnv struct {
	e    *Exec
	fr   *Frame
	fn   *ssa.Function
	st   *State
	old  *State
	vars map[string]ev
	phis map[*ssa.Phi]Value // loop invariants: phi overrides
	qn   *int
	inOld bool
	point ssa.Instruction // program point (at-eval clauses): names resolve to the value in use here
	prevPhis map[*ssa.Phi]Value // step clauses: the loop variables before the iteration (prev(x))
	domBinding bool // loop-exit clauses: a name without a reference on the dominator path resolves to the value of that name defined last among the dominating blocks
	asks  *[]*Term        // terms whose model values help to replay a refutation (the bigval(..) terms of the clause)
}

func (en *evalEnv) with(vars map[string]ev) *evalEnv {
	n := *en
	n.vars = map[string]ev{}
	for k, v := range en.vars {
		n.vars[k] = v
	}
	for k, v := range vars {
		n.vars[k] = v
	}
	return &n
}

type evalErr struct{ msg string }

func (en *evalEnv) fail(f string, a ...any) { panic(evalErr{fmt.Sprintf(f, a...)}) }

func (en *evalEnv) boolTerm(x Expr) *Term {
	r := en.eval(x)
	t, ok := r.v.(*Term)
	if !ok || t.Sort != SBool {
		en.fail("boolean expected in contract")
	}
	return t
}

func (en *evalEnv) intTerm(x Expr) *Term {
	r := en.eval(x)
	t, ok := r.v.(*Term)
	if !ok || t.Sort != SInt {
		en.fail("integer expected in contract: %#v", x)
	}
	return t
}

func derefNamed(t types.Type) types.Type {
	if p, ok := t.Underlying().(*types.Pointer); ok {
		return p.Elem()
	}
	return t
}

// findField resolves a (possibly promoted) field; returns the path of field
// indices and the field type.
func findField(t types.Type, name string) ([]int, types.Type) {
	st, ok := derefNamed(t).Underlying().(*types.Struct)
	if !ok {
		return nil, nil
	}
	for i := 0; i < st.NumFields(); i++ {
		if st.Field(i).Name() == name {
			return []int{i}, st.Field(i).Type()
		}
	}
	for i := 0; i < st.NumFields(); i++ {
		f := st.Field(i)
		if f.Embedded() {
			if p, ft := findField(f.Type(), name); p != nil {
				return append([]int{i}, p...), ft
			}
		}
	}
	return nil, nil
}

// cellOf: the alloc that holds the variable obj, if the function refers to its address anywhere.
func cellOf(fn *ssa.Function, obj types.Object) ssa.Value {
	for _, b := range fn.Blocks {
		for _, in := range b.Instrs {
			if dr, ok := in.(*ssa.DebugRef); ok && dr.IsAddr && dr.Object() == obj {
				if a, ok := dr.X.(*ssa.Alloc); ok {
					return a
				}
			}
		}
	}
	return nil
}

func (en *evalEnv) lookupIdent(name string) (ev, bool) {
	if v, ok := en.vars[name]; ok {
		return v, true
	}
	if strings.HasPrefix(name, "$") {
		if t, ok := en.st.heap["L"+name]; ok && t != nil {
			return ev{t, nil}, true
		}
	}
	e := en.e
	if en.inOld {
		for _, p := range en.fn.Params {
			if p.Name() == name {
				return ev{e.val(en.fr, p), p.Type()}, true
			}
		}
	}
	// loop phi by source name
	if en.phis != nil {
		for phi, v := range en.phis {
			if phi.Comment == name {
				return ev{v, phi.Type()}, true
			}
		}
	}
	if en.point != nil && os.Getenv("SLIPVC_DEBUG") == "names" {
		for _, bb := range en.point.Parent().Blocks {
			for _, in := range bb.Instrs {
				if dr, ok := in.(*ssa.DebugRef); ok {
					if id, ok := dr.Expr.(*ast.Ident); ok && id.Name == name {
						fmt.Fprintf(os.Stderr, "debugref %s in block %d addr=%v X=%T %v has=%v\n", name, bb.Index, dr.IsAddr, dr.X, dr.X.Name(), en.hasValue(dr.X))
					}
				}
			}
		}
		fmt.Fprintf(os.Stderr, "point block %d\n", en.point.Block().Index)
	}
	if en.point != nil && en.fn.Pkg != nil && !en.shadowed(name) {
		// a package-level variable is read as it is now, not through the value some earlier statement loaded
		if m, ok := en.fn.Pkg.Members[name]; ok {
			if _, isGlobal := m.(*ssa.Global); isGlobal {
				return en.member(m)
			}
		}
	}
	if en.point != nil {
		// the most recent reference to this name before the program point, searching back through
		// the block and its unique predecessors
		b := en.point.Block()
		idx := len(b.Instrs)
		for i, in := range b.Instrs {
			if in == en.point {
				idx = i
			}
		}
		pb := b
		for hops := 0; b != nil && hops < 64; hops++ {
			for i := idx - 1; i >= 0; i-- {
				if dr, ok := b.Instrs[i].(*ssa.DebugRef); ok && dr.IsAddr {
					// an address-taken variable: its current contents are read from its cell
					if id, ok := dr.Expr.(*ast.Ident); ok && id.Name == name && en.hasValue(dr.X) && !isFieldRef(dr) {
						if pt, ok := dr.X.Type().(*types.Pointer); ok {
							if _, isArr := arrayElem(pt.Elem()); isArr {
								if row := e.rowOf(en.st, e.val(en.fr, dr.X)); row != nil {
									return ev{row, pt.Elem()}, true
								}
							}
							return ev{e.load(en.fr, en.st, e.val(en.fr, dr.X), pt.Elem()), pt.Elem()}, true
						}
					}
				}
				if dr, ok := b.Instrs[i].(*ssa.DebugRef); ok && !dr.IsAddr {
					if id, ok := dr.Expr.(*ast.Ident); ok && id.Name == name {
						if !en.hasValue(dr.X) {
							continue // defined by an instruction that has not been executed at this point
						}
						// the same variable may live in a cell (address taken, or not lifted to registers): a
						// reference to its address elsewhere in the function tells; its current contents are what counts
						if obj := dr.Object(); obj != nil {
							if cell := cellOf(en.point.Parent(), obj); cell != nil && en.hasValue(cell) {
								if pt, ok := cell.Type().(*types.Pointer); ok {
									if _, isArr := arrayElem(pt.Elem()); isArr {
										if row := e.rowOf(en.st, e.val(en.fr, cell)); row != nil {
											return ev{row, pt.Elem()}, true
										}
									}
									return ev{e.load(en.fr, en.st, e.val(en.fr, cell), pt.Elem()), pt.Elem()}, true
								}
							}
						}
						// the variable may have been re-assigned on the way to the program point: a phi of
						// this variable in a block between the reference and the point carries the current value
						val := dr.X
						for d := pb; d != nil && d != b; d = d.Idom() {
							for _, in := range d.Instrs {
								phi, isPhi := in.(*ssa.Phi)
								if !isPhi {
									break
								}
								if phi.Comment == name {
									return ev{e.val(en.fr, phi), phi.Type()}, true
								}
							}
						}
						return ev{e.val(en.fr, val), val.Type()}, true
					}
				}
			}
			// continue in the immediate dominator: a reference there dominates the program point
			if os.Getenv("SLIPVC_DEBUG") == "names" {
				fmt.Fprintf(os.Stderr, "walk %s: block %d idom %v\n", name, b.Index, b.Idom())
			}
			b = b.Idom()
			if b != nil {
				idx = len(b.Instrs)
			}
		}
	}
	if en.point != nil {
		// a phi of that name in a dominating block (implicit variables such as rangeindex have no debug refs)
		for d := en.point.Block(); d != nil; d = d.Idom() {
			for _, in := range d.Instrs {
				phi, isPhi := in.(*ssa.Phi)
				if !isPhi {
					break
				}
				if phi.Comment == name && en.hasValue(phi) {
					return ev{e.val(en.fr, phi), phi.Type()}, true
				}
			}
		}
	}
	// a local with a unique SSA value (needs debug refs)
	for f := en.fr; f != nil; f = f.parent {
		for _, p := range f.fn.Params {
			if p.Name() == name {
				return ev{e.val(f, p), p.Type()}, true
			}
		}
		for _, p := range f.fn.FreeVars {
			if p.Name() == name {
				// captured variable: pointer to cell
				pt := p.Type().(*types.Pointer).Elem()
				return ev{e.load(f, en.st, e.val(f, p), pt), pt}, true
			}
		}
	}
	if v := en.e.namedValue(en.fr, en.fn, name); v != nil {
		if a, ok := v.(*ssa.Alloc); ok {
			pt := a.Type().(*types.Pointer).Elem()
			return ev{e.load(en.fr, en.st, e.val(en.fr, a), pt), pt}, true
		}
		return ev{e.val(en.fr, v), v.Type()}, true
	}
	if en.point != nil && en.domBinding && !strings.HasPrefix(name, "$") {
		// several SSA values carry this name (the binding of a type switch has one per case) and no
		// reference lies on the dominator path of the program point: of the values that are defined in a
		// block dominating the point, the one defined last (deepest in the dominator tree) is the binding
		// in force there
		var best ssa.Value
		var bestB *ssa.BasicBlock
		for _, bb := range en.point.Parent().Blocks {
			for _, in := range bb.Instrs {
				dr, ok := in.(*ssa.DebugRef)
				if !ok || dr.IsAddr || isFieldRef(dr) {
					continue
				}
				if id, ok := dr.Expr.(*ast.Ident); !ok || id.Name != name {
					continue
				}
				def, ok := dr.X.(ssa.Instruction)
				if !ok || def.Block() == nil || !def.Block().Dominates(en.point.Block()) || !en.hasValue(dr.X) {
					continue
				}
				if best == nil || (bestB != def.Block() && bestB.Dominates(def.Block())) {
					best, bestB = dr.X, def.Block()
				}
			}
		}
		if best != nil {
			return ev{e.val(en.fr, best), best.Type()}, true
		}
	}
	// package-level variable or constant
	if en.fn.Pkg != nil {
		if m, ok := en.fn.Pkg.Members[name]; ok {
			return en.member(m)
		}
	}
	return ev{}, false
}

func (en *evalEnv) member(m ssa.Member) (ev, bool) {
	switch x := m.(type) {
	case *ssa.Global:
		pt := x.Type().(*types.Pointer).Elem()
		if _, ok := arrayElem(pt); ok {
			// an array variable read in a contract: its row, as it is now (no snapshot needed for an instantaneous read)
			if row := en.e.rowOf(en.st, en.e.val(en.fr, x)); row != nil {
				return ev{row, pt}, true
			}
		}
		return ev{en.e.load(en.fr, en.st, en.e.val(en.fr, x), pt), pt}, true
	case *ssa.NamedConst:
		return ev{en.e.constVal(x.Value), x.Type()}, true
	}
	return ev{}, false
}

// namedValue finds the unique SSA value a source identifier refers to.
func (e *Exec) namedValue(fr *Frame, fn *ssa.Function, name string) ssa.Value {
	var found ssa.Value
	for _, b := range fn.Blocks {
		for _, in := range b.Instrs {
			switch x := in.(type) {
			case *ssa.DebugRef:
				id, ok := x.Expr.(*ast.Ident)
				if !ok || id.Name != name {
					continue
				}
				if found != nil && found != x.X {
					return nil // ambiguous
				}
				found = x.X
			case *ssa.Alloc:
				if x.Comment == name {
					if found != nil && found != x {
						return nil
					}
					found = x
				}
			}
		}
	}
	return found
}

func (en *evalEnv) pkgByName(name string) *ssa.Package {
	if en.fn.Pkg == nil {
		return nil
	}
	for _, imp := range en.fn.Pkg.Pkg.Imports() {
		if imp.Name() == name {
			return en.e.P.SSA.Package(imp)
		}
	}
	if en.fn.Pkg.Pkg.Name() == name {
		return en.fn.Pkg
	}
	return nil
}

var builtinTypeNames = map[string]types.Type{
	"bool": types.Typ[types.Bool], "string": types.Typ[types.String], "int": types.Typ[types.Int], "int8": types.Typ[types.Int8],
	"int16": types.Typ[types.Int16], "int32": types.Typ[types.Int32], "int64": types.Typ[types.Int64], "uint": types.Typ[types.Uint],
	"uint8": types.Typ[types.Uint8], "uint16": types.Typ[types.Uint16], "uint32": types.Typ[types.Uint32], "uint64": types.Typ[types.Uint64],
	"float32": types.Typ[types.Float32], "float64": types.Typ[types.Float64],
	"bytes":          types.NewSlice(types.Typ[types.Uint8]),
	"slice_any":      types.NewSlice(types.Universe.Lookup("any").Type()),
	"map_string_any": types.NewMap(types.Typ[types.String], types.Universe.Lookup("any").Type()),
}

func (en *evalEnv) typeByName(name string) types.Type {
	if t, ok := builtinTypeNames[name]; ok {
		return t
	}
	star := false
	if strings.HasPrefix(name, "*") {
		star = true
		name = name[1:]
	}
	var pkg *types.Package
	tn := name
	if i := strings.Index(name, "."); i >= 0 {
		if sp := en.pkgByName(name[:i]); sp != nil {
			pkg = sp.Pkg
		}
		tn = name[i+1:]
	} else if en.fn.Pkg != nil {
		pkg = en.fn.Pkg.Pkg
	}
	if pkg == nil {
		en.fail("unknown package in type %s", name)
	}
	obj := pkg.Scope().Lookup(tn)
	if obj == nil {
		en.fail("unknown type %s", name)
	}
	t := obj.Type()
	if star {
		t = types.NewPointer(t)
	}
	return t
}

func typeExprName(x Expr) string {
	switch t := x.(type) {
	case *EIdent:
		return t.Name
	case *ESel:
		if id, ok := t.X.(*EIdent); ok {
			return id.Name + "." + t.Sel
		}
	case *EUnary:
		// not used
	case *EBinary:
		// `*T` parses as multiplication only with a left operand; handled by caller
	}
	return ""
}

func (en *evalEnv) eval(x Expr) ev {
	e := en.e
	switch x := x.(type) {
	case *EStr:
		return ev{e.strConst(x.Val), types.Typ[types.String]}
	case *EInt:
		return ev{BigLit(x.Val), nil}
	case *EBool:
		if x.Val {
			return ev{True, nil}
		}
		return ev{False, nil}
	case *ENil:
		return ev{&Term{"$nil", "$nil"}, nil}
	case *EIdent:
		v, ok := en.lookupIdent(x.Name)
		if !ok && os.Getenv("SLIPVC_DEBUG") != "" {
			fmt.Fprintf(os.Stderr, "lookup failed %s point=%v inOld=%v phis=%v\n", x.Name, en.point != nil, en.inOld, en.phis != nil)
		}
		if !ok {
			en.fail("unknown identifier %s in contract of %s", x.Name, FuncName(en.fn))
		}
		return v
	case *EOld:
		n := *en
		n.st = en.old
		n.phis = nil
		n.inOld = true // old(e): parameters denote their entry values; locals keep their current value, the heap is the entry heap
		return n.eval(x.X)
	case *ETernary:
		c := en.boolTerm(x.C)
		a, b := en.eval(x.A), en.eval(x.B)
		return ev{e.iteValue(c, a.v, b.v), a.t}
	case *EUnary:
		if x.Op == "!" {
			return ev{Not(en.boolTerm(x.X)), nil}
		}
		return ev{App(SInt, "-", en.intTerm(x.X)), nil}
	case *EBinary:
		return en.binary(x)
	case *EQuant:
		*en.qn++
		vars := map[string]ev{}
		var decl []string
		for _, v := range x.Vars {
			n := fmt.Sprintf("q!%s!%d", v, *en.qn)
			vars[v] = ev{&Term{n, SInt}, nil}
			decl = append(decl, "("+n+" Int)")
		}
		body := en.with(vars).boolTerm(x.Body)
		q := "exists"
		if x.Forall {
			q = "forall"
		}
		return ev{&Term{fmt.Sprintf("(%s (%s) %s)", q, strings.Join(decl, " "), body.S), SBool}, nil}
	case *ESel:
		// package-qualified name?
		if id, ok := x.X.(*EIdent); ok {
			if _, isVar := en.lookupIdent(id.Name); !isVar {
				if sp := en.pkgByName(id.Name); sp != nil {
					if m, ok := sp.Members[x.Sel]; ok {
						if v, ok := en.member(m); ok {
							return v
						}
					}
					en.fail("unknown member %s.%s", id.Name, x.Sel)
				}
			}
		}
		base := en.eval(x.X)
		if base.t == nil {
			en.fail("field %s of untyped value", x.Sel)
		}
		path, ft := findField(base.t, x.Sel)
		if path == nil {
			en.fail("no field %s in %s", x.Sel, base.t)
		}
		return ev{en.readFieldPath(base, path), ft}
	case *EIndex:
		base := en.eval(x.X)
		if base.t != nil {
			if mt, ok := base.t.Underlying().(*types.Map); ok {
				return ev{e.mapValue(en.st, base.v.(*Term), mt, en.keyTerm(x.I, mt.Key())), mt.Elem()}
			}
		}
		i := en.intTerm(x.I)
		if base.t == nil {
			if bt, ok := base.v.(*Term); ok && strings.HasPrefix(bt.Sort, "(Array Int ") {
				return ev{Select(bt, i), nil}
			}
			en.fail("index of untyped value")
		}
		switch u := base.t.Underlying().(type) {
		case *types.Slice:
			sl := base.v.(*Term)
			es := sortOf(u.Elem())
			if es == structSort {
				return ev{e.elemRef(App(SInt, "sl-id", sl), Add(App(SInt, "sl-off", sl), i)), types.NewPointer(u.Elem())}
			}
			h := e.heapRead(en.st, arrComp(u.Elem()), ArrSort(ArrSort(es)))
			return ev{Select(Select(h, App(SInt, "sl-id", sl)), Add(App(SInt, "sl-off", sl), i)), u.Elem()}
		case *types.Array:
			if et, ok := arrayElem(base.t); ok {
				if row, ok := base.v.(*Term); ok && row.Sort == SInt {
					es := sortOf(et)
					h := e.heapRead(en.st, arrComp(et), ArrSort(ArrSort(es)))
					return ev{Select(Select(h, row), i), et}
				}
			}
			en.fail("cannot index %s", base.t)
		case *types.Basic:
			return ev{App(SInt, "sat", base.v.(*Term), i), types.Typ[types.Byte]}
		case *types.Map:
			return ev{e.mapValue(en.st, base.v.(*Term), u, en.keyTerm(x.I, u.Key())), u.Elem()}
		}
		en.fail("cannot index %s", base.t)
	case *ESlice:
		base := en.eval(x.X)
		sl, ok := base.v.(*Term)
		if !ok || sl.Sort != SSl {
			en.fail("slice expression on non-slice")
		}
		lo := IntLit(0)
		if x.Lo != nil {
			lo = en.intTerm(x.Lo)
		}
		hi := App(SInt, "sl-len", sl)
		if x.Hi != nil {
			hi = en.intTerm(x.Hi)
		}
		return ev{App(SSl, "mk-sl", App(SInt, "sl-id", sl), Add(App(SInt, "sl-off", sl), lo), Sub(hi, lo), Sub(App(SInt, "sl-cap", sl), lo)), base.t}
	case *ECall:
		return en.call(x)
	}
	en.fail("unsupported contract expression %T", x)
	return ev{}
}

func (en *evalEnv) keyTerm(x Expr, kt types.Type) *Term {
	r := en.eval(x)
	t, ok := r.v.(*Term)
	if !ok {
		en.fail("bad map key")
	}
	return t
}

func (en *evalEnv) readFieldPath(base ev, path []int) Value {
	e := en.e
	t := base.t
	cur := base.v
	for k, fi := range path {
		stT := derefNamed(t)
		st := stT.Underlying().(*types.Struct)
		ft := st.Field(fi).Type()
		_, fieldIsStruct := ft.Underlying().(*types.Struct)
		switch b := cur.(type) {
		case *StructVal:
			cur = b.Fs[fi]
		case *Loc:
			if b.Kind == LLocal {
				nl := &Loc{Kind: LLocal, Key: fmt.Sprintf("%s.%d", b.Key, fi), Type: ft}
				if fieldIsStruct {
					cur = nl
				} else {
					cur = e.loadLoc(en.st, nl, ft)
				}
			} else {
				en.fail("field of address")
			}
		case *Term:
			name := structName(stT)
			if fieldIsStruct {
				cur = e.embRef(name, fi, b)
			} else {
				h := e.heapRead(en.st, fieldComp(name, fi), ArrSort(sortOf(ft)))
				cur = Select(h, b)
			}
		}
		t = ft
		_ = k
	}
	return cur
}

func (en *evalEnv) binary(x *EBinary) ev {
	switch x.Op {
	case "&&":
		return ev{And(en.boolTerm(x.X), en.boolTerm(x.Y)), nil}
	case "||":
		return ev{Or(en.boolTerm(x.X), en.boolTerm(x.Y)), nil}
	case "==>":
		return ev{Implies(en.boolTerm(x.X), en.boolTerm(x.Y)), nil}
	case "<==>":
		return ev{Eq(en.boolTerm(x.X), en.boolTerm(x.Y)), nil}
	case "==", "!=":
		a, b := en.eval(x.X), en.eval(x.Y)
		eq := en.equal(a, b)
		if x.Op == "!=" {
			return ev{Not(eq), nil}
		}
		return ev{eq, nil}
	case "<", "<=", ">", ">=":
		return ev{App(SBool, x.Op, en.intTerm(x.X), en.intTerm(x.Y)), nil}
	case "+", "-", "*":
		return ev{App(SInt, x.Op, en.intTerm(x.X), en.intTerm(x.Y)), nil}
	case "/":
		return ev{App(SInt, "tdiv", en.intTerm(x.X), en.intTerm(x.Y)), nil}
	case "%":
		return ev{App(SInt, "trem", en.intTerm(x.X), en.intTerm(x.Y)), nil}
	}
	en.fail("operator %s", x.Op)
	return ev{}
}

func (en *evalEnv) equal(a, b ev) *Term {
	at, aok := a.v.(*Term)
	bt, bok := b.v.(*Term)
	if !aok || !bok {
		en.fail("cannot compare composite values in a contract")
	}
	if at.Sort == "$nil" {
		at, bt = bt, at
	}
	if bt.Sort == "$nil" {
		switch at.Sort {
		case SObj:
			return Eq(App(SInt, "o-tag", at), IntLit(0))
		case SSl:
			return Eq(App(SInt, "sl-id", at), IntLit(0))
		case SInt:
			return Eq(at, IntLit(0))
		}
		en.fail("nil comparison on %s", at.Sort)
	}
	if at.Sort != bt.Sort {
		en.fail("comparison of different sorts %s and %s", at.Sort, bt.Sort)
	}
	return Eq(at, bt)
}

func (en *evalEnv) call(x *ECall) ev {
	e := en.e
	arg := func(i int) ev {
		if i >= len(x.Args) {
			en.fail("%s: missing argument", x.Fun)
		}
		return en.eval(x.Args[i])
	}
	switch x.Fun {
	case "len", "cap":
		a := arg(0)
		t := a.v.(*Term)
		switch t.Sort {
		case SSl:
			if x.Fun == "len" {
				return ev{App(SInt, "sl-len", t), nil}
			}
			return ev{App(SInt, "sl-cap", t), nil}
		case SInt:
			if a.t != nil {
				if mt, ok := a.t.Underlying().(*types.Map); ok {
					return ev{e.mapLen(en.st, t, mt), nil}
				}
			}
			return ev{App(SInt, "slen", t), nil}
		}
		en.fail("len of %s", t.Sort)
	case "idof":
		if t := arg(0).v.(*Term); t.Sort == SInt {
			return ev{t, nil} // an array variable: its row
		}
		return ev{App(SInt, "sl-id", arg(0).v.(*Term)), nil}
	case "offof":
		return ev{App(SInt, "sl-off", arg(0).v.(*Term)), nil}
	case "feq":
		// feq(a, b): the floating-point comparison a == b of the code (uninterpreted, the same symbol)
		a, b := arg(0), arg(1)
		return ev{e.floatCmp("feq", a.v.(*Term), b.v.(*Term)), nil}
	case "fresh":
		// allocated during this activation
		a := arg(0)
		t := a.v.(*Term)
		id := t
		if t.Sort == SSl {
			id = App(SInt, "sl-id", t)
		} else if t.Sort == SObj {
			id = App(SInt, "o-int", t)
		}
		return ev{Le(e.heapRead(en.old, "$alloc", SInt), id), nil}
	case "allocated":
		// existed at entry
		a := arg(0)
		t := a.v.(*Term)
		id := t
		if t.Sort == SSl {
			id = App(SInt, "sl-id", t)
		}
		return ev{Lt(id, e.heapRead(en.old, "$alloc", SInt)), nil}
	case "hasbits":
		// hasbits(x, m): x & m == m; decided here for numerals
		a, b := en.intTerm(x.Args[0]), en.intTerm(x.Args[1])
		av, aerr := strconv.ParseInt(a.S, 10, 64)
		bv, berr := strconv.ParseInt(b.S, 10, 64)
		if aerr == nil && berr == nil {
			if av&bv == bv {
				return ev{True, nil}
			}
			return ev{False, nil}
		}
		return ev{Eq(App(SInt, "uf_and", a, b), b), nil}
	case "wrapu64":
		// value of a uint64 expression: mathematical value modulo 2^64
		return ev{App(SInt, "wrapU", en.intTerm(x.Args[0]), BigLit(pow2(64))), nil}
	case "prev":
		// prev(x): the value of loop variable x before the iteration (step clauses)
		id, ok := x.Args[0].(*EIdent)
		if !ok || en.prevPhis == nil {
			en.fail("prev(x) needs a loop variable, inside a step clause")
		}
		for phi, v := range en.prevPhis {
			if phi.Comment == id.Name {
				return ev{v, phi.Type()}
			}
		}
		en.fail("prev(%s): no such loop variable", id.Name)
	case "bigval":
		// bigval(x): the mathematical integer held by the *big.Int / *slip.Bignum x (value model of math/big)
		a := arg(0)
		t := a.v.(*Term)
		id := t
		if t.Sort == SObj {
			id = App(SInt, "o-int", t)
		}
		r := e.bigGet(en.st, id)
		if en.asks != nil && !strings.Contains(id.S, "q!") {
			*en.asks = append(*en.asks, r)
		}
		return ev{r, nil}
	case "abs":
		t := en.intTerm(x.Args[0])
		return ev{Ite(Lt(t, IntLit(0)), App(SInt, "-", t), t), nil}
	case "mine":
		// mine(x): the object x refers to was allocated by this activation, or the caller handed it over
		// (it is not visible to anyone else); family O
		a := arg(0)
		t := a.v.(*Term)
		id := t
		if t.Sort == SSl {
			id = App(SInt, "sl-id", t)
		} else if t.Sort == SObj {
			id = App(SInt, "o-int", t)
		}
		return ev{e.mineTerm(id), nil}
	case "live":
		// exists now: allocated before this program point (a later make/new differs from it)
		a := arg(0)
		t := a.v.(*Term)
		id := t
		if t.Sort == SSl {
			id = App(SInt, "sl-id", t)
		} else if t.Sort == SObj {
			id = App(SInt, "o-int", t)
		}
		return ev{Lt(id, e.heapRead(en.st, "$alloc", SInt)), nil}
	case "is":
		// is(x, T): dynamic type of interface value x is T
		a := arg(0)
		tn := typeExprName(x.Args[1])
		if c, ok := x.Args[1].(*ECall); ok && c.Fun == "ptr" && len(c.Args) == 1 {
			tn = "*" + typeExprName(c.Args[0])
		}
		if tn == "" || tn == "*" {
			en.fail("is(x, T): bad type")
		}
		t := en.typeByName(tn)
		return ev{Eq(App(SInt, "o-tag", a.v.(*Term)), IntLit(int64(e.tag(t)))), nil}
	case "implements":
		// implements(x, Iface): the dynamic type of x implements the named interface
		a := arg(0)
		t := en.typeByName(typeExprName(x.Args[1]))
		it, ok := t.Underlying().(*types.Interface)
		if !ok {
			en.fail("implements(x, I): I is not an interface")
		}
		return ev{e.implPred(it, t, App(SInt, "o-tag", a.v.(*Term))), nil}
	case "tag":
		return ev{App(SInt, "o-tag", arg(0).v.(*Term)), nil}
	case "asInt":
		// payload of a boxed integer-like value
		return ev{App(SInt, "o-int", arg(0).v.(*Term)), nil}
	case "as":
		// as(x, T): the payload of interface value x viewed as concrete type T
		a := arg(0)
		tn := typeExprName(x.Args[1])
		if c, ok := x.Args[1].(*ECall); ok && c.Fun == "ptr" && len(c.Args) == 1 {
			tn = "*" + typeExprName(c.Args[0])
		}
		t := en.typeByName(tn)
		at := a.v.(*Term)
		switch sortOf(t) {
		case SSl:
			return ev{App(SSl, "o-sl", at), t}
		case SBool:
			return ev{Eq(App(SInt, "o-int", at), IntLit(1)), t}
		default:
			return ev{App(SInt, "o-int", at), t}
		}
	case "asList":
		a := arg(0)
		lt := en.typeByName("slip.List")
		return ev{App(SSl, "o-sl", a.v.(*Term)), lt}
	case "box":
		// box(v, T): interface value holding v with dynamic type T
		a := arg(0)
		t := en.typeByName(typeExprName(x.Args[1]))
		return ev{e.box(a.v, t), nil}
	case "min", "max":
		a, b := en.intTerm(x.Args[0]), en.intTerm(x.Args[1])
		if x.Fun == "min" {
			return ev{Ite(Le(a, b), a, b), nil}
		}
		return ev{Ite(Le(a, b), b, a), nil}
	case "tolower", "toupper":
		f := "str_" + x.Fun
		if !e.declared[f] {
			e.declared[f] = true
			e.emit("(declare-fun %s (Int) Int)", f)
		}
		a, aok := arg(0).v.(*Term)
		if !aok {
			en.fail("%s(s): string expected", x.Fun)
		}
		return ev{App(SInt, f, a), types.Typ[types.String]}
	case "contains", "hasprefix", "hassuffix", "equalfold":
		// the library predicate of the same name applied to two strings (uninterpreted, see knownCall)
		f := "str_" + x.Fun
		if !e.declared[f] {
			e.declared[f] = true
			e.emit("(declare-fun %s (Int Int) Bool)", f)
		}
		a, aok := arg(0).v.(*Term)
		b, bok := arg(1).v.(*Term)
		if !aok || !bok {
			en.fail("%s(a, b): strings expected", x.Fun)
		}
		return ev{App(SBool, f, a, b), nil}
	case "has":
		// has(m, k): key in map
		a := arg(0)
		mt, ok := a.t.Underlying().(*types.Map)
		if !ok {
			en.fail("has: not a map")
		}
		return ev{e.mapHas(en.st, a.v.(*Term), mt, en.keyTerm(x.Args[1], mt.Key())), nil}
	}
	if e.Opt.Contracts != nil && len(x.Args) == 1 {
		for pm := range e.Opt.Contracts.PureMethods {
			if i := strings.Index(pm, "."); i >= 0 && pm[i+1:] == x.Fun {
				a := arg(0)
				rs := SInt
				if m := en.pureMethodSort(pm[:i], x.Fun); m != "" {
					rs = m
				}
				at, ok := a.v.(*Term)
				if !ok || at.Sort != SObj {
					en.fail("%s(x): x must be an interface value", x.Fun)
				}
				return ev{e.pureMethod(x.Fun, rs, at), en.pureMethodType(pm[:i], x.Fun)}
			}
		}
	}
	if e.Opt.Contracts != nil {
		for pf := range e.Opt.Contracts.PureFuncs {
			if i := strings.LastIndex(pf, "."); i >= 0 && pf[i+1:] == x.Fun {
				fn := e.P.Funcs[pf]
				if fn == nil || fn.Signature.Results().Len() != 1 {
					en.fail("pure function %s: not found or not single-valued", pf)
				}
				var as []*Term
				for k := range x.Args {
					t, ok := arg(k).v.(*Term)
					if !ok {
						en.fail("pure function %s: argument %d is not a scalar or object", pf, k)
					}
					as = append(as, t)
				}
				rt := fn.Signature.Results().At(0).Type()
				return ev{e.pureFuncApp(pf, sortOf(rt), as), rt}
			}
		}
	}
	if g, ok := en.e.ghostFuncs[x.Fun]; ok {
		var as []ev
		for i := range x.Args {
			as = append(as, arg(i))
		}
		return g(en, as)
	}
	if sf, ok := e.Opt.Contracts.Specs[x.Fun]; ok {
		if len(sf.Params) != len(x.Args) {
			en.fail("spec function %s: arity", x.Fun)
		}
		vars := map[string]ev{}
		for i, p := range sf.Params {
			vars[p] = arg(i)
		}
		return en.with(vars).eval(sf.Body)
	}
	en.fail("unknown function %s in contract", x.Fun)
	return ev{}
}

// ---------------------------------------------------------------------------

func (e *Exec) newEnv(fr *Frame, st *State, old *State) *evalEnv {
	q := 0
	return &evalEnv{e: e, fr: fr, fn: fr.fn, st: st, old: old, vars: map[string]ev{}, qn: &q}
}

func (e *Exec) evalClause(en *evalEnv, cl *Clause) (t *Term) {
	defer func() {
		if r := recover(); r != nil {
			if ee, ok := r.(evalErr); ok {
				panic(unsupported{"contract: " + ee.msg + " in `" + cl.Text + "`"})
			}
			panic(r)
		}
	}()
	return en.boolTerm(cl.Expr)
}

func (e *Exec) assumeRequires(fr *Frame, st *State, c *Contract) {
	for _, cl := range c.Requires {
		en := e.newEnv(fr, st, st)
		e.assume(st.pc, e.evalClause(en, cl))
	}
}

func clauseName(cl *Clause, i int) string {
	if cl.Label != "" {
		return cl.Label
	}
	return fmt.Sprintf("%d", i+1)
}

func (e *Exec) bindResults(en *evalEnv, fn *ssa.Function, res []Value) {
	rs := fn.Signature.Results()
	for i := 0; i < rs.Len() && i < len(res); i++ {
		v := ev{res[i], rs.At(i).Type()}
		if n := rs.At(i).Name(); n != "" && n != "_" {
			en.vars[n] = v
		}
		en.vars[fmt.Sprintf("result%d", i)] = v
		if i == 0 {
			en.vars["result"] = v
		}
	}
}

func (e *Exec) atReturn(fr *Frame, st *State, res []Value, c *Contract) {
	e.returnsSeen++
	for _, h := range e.retHooks {
		h(e, fr, st, res)
	}
	e.resultIndependence(fr, st, res)
	e.aoReturn(fr, st, res)
	if c == nil {
		return
	}
	for i, cl := range c.Ensures {
		en := e.newEnv(fr, st, e.entry)
		en.point = e.curIn // names that are not parameters resolve to the value in use at this return
		en.inOld = true    // parameter names denote the entry values (Gobra style); locals their value at the return
		e.bindResults(en, fr.fn, res)
		var asks []*Term
		en.asks = &asks
		// a clause that names a local which is not in scope at this return does not apply here; it must
		// apply at one return at least (checked when the function is done)
		g, ok := e.tryClause(en, cl.Text, cl.Expr)
		if !ok {
			continue
		}
		e.clauseUsed["ensures:"+clauseName(cl, i)]++
		e.oblige(st, "post", clauseName(cl, i), g, "", asks...)
	}
	if c.Options["frame-arrays"] {
		// frame condition: every backing array that existed at entry has its entry contents
		var ks []string
		for k := range st.heap {
			if strings.HasPrefix(k, "A_") && arrCompSort(k) != "" {
				ks = append(ks, k)
			}
		}
		sort.Strings(ks)
		for _, k := range ks {
			es := arrCompSort(k)
			now := e.heapRead(st, k, ArrSort(ArrSort(es)))
			was := e.heapRead(e.entry, k, ArrSort(ArrSort(es)))
			if now.S == was.S {
				continue
			}
			e.oblige(st, "frame", k, e.frameRows(now, was, e.heapRead(e.entry, "$alloc", SInt)), "")
		}
	}
}

// arrCompSort: element sort of an array component, by its name.
func arrCompSort(comp string) string {
	switch {
	case comp == "A_Int":
		return SInt
	case comp == "A_Bool":
		return SBool
	case comp == "A_Obj":
		return SObj
	case strings.HasPrefix(comp, "A_Sl_"):
		return SSl
	}
	return ""
}

// frameRows: the arrays with an id below bound are the same in now and was.
func (e *Exec) frameRows(now, was, bound *Term) *Term {
	return &Term{fmt.Sprintf("(forall ((a!fr Int)) (! (=> (< a!fr %s) (= (select %s a!fr) (select %s a!fr))) :pattern ((select %s a!fr))))", bound.S, now.S, was.S, now.S), SBool}
}

func (e *Exec) callByContract(fr *Frame, st *State, x *ssa.Call, callee *ssa.Function, ct *Contract) (Value, bool) {
	// callee frame used only to bind parameter names to argument values
	cf := &Frame{fn: callee, vals: map[ssa.Value]Value{}, locals: map[*ssa.Alloc]string{}, parent: nil}
	for i, p := range callee.Params {
		cf.vals[p] = e.val(fr, x.Call.Args[i])
	}
	pre := st.clone()
	for i, cl := range ct.Requires {
		en := e.newEnv(cf, st, st)
		g := e.evalClause(en, cl)
		e.oblige(st, "pre", callee.Name()+":"+clauseName(cl, i), g, e.posOf(x))
	}
	e.argsEscape(fr, st, &x.Call)
	if ct.Options["trace"] || ct.Options["eval-once"] || ct.Options["forward-exits"] || ct.Options["forward-body-exits"] {
		// the callee evaluates Lisp forms: arbitrary effects on the heap, and it extends the ghost trace
		e.newEpoch(st)
		if e.ghostOn {
			var gks []string
			for k := range st.heap {
				// the caller's own call / store counters are not touched by what the callee evaluates
				if strings.HasPrefix(k, "L$") && !strings.HasPrefix(k, "L$ncall_") && !strings.HasPrefix(k, "L$nstore_") {
					gks = append(gks, k)
				}
			}
			sort.Strings(gks)
			for _, k := range gks {
				st.heap[k] = e.fresh(st.heap[k].Sort, "g")
			}
			if pre.heap[gN] == nil || st.heap[gN] == nil {
				// the function under contract keeps counters only, no evaluation trace
				goto traceDone
			}
			// the trace only grows; earlier events are unchanged
			e.assume(st.pc, Le(pre.heap[gN], st.heap[gN]))
			for _, k := range []string{gEk, gEarr, gEslot, gEidx, gEobj, gEscope, gEres} {
				e.emit("(assert (=> %s (forall ((k!t Int)) (! (=> (< k!t %s) (= (select %s k!t) (select %s k!t))) :pattern ((select %s k!t))))))",
					st.pc.S, pre.heap[gN].S, st.heap[k].S, pre.heap[k].S, st.heap[k].S)
			}
		traceDone:
		}
	} else {
		ms := e.P.ModSetOf(callee)
		e.havoc(st, ms)
		if ct.Options["frame-arrays"] && !ms.All {
			// the callee's frame condition: arrays allocated before the call keep their contents
			var ks []string
			for k := range ms.Comps {
				if strings.HasPrefix(k, "A_") && arrCompSort(k) != "" {
					ks = append(ks, k)
				}
			}
			sort.Strings(ks)
			for _, k := range ks {
				es := arrCompSort(k)
				was := e.heapRead(pre, k, ArrSort(ArrSort(es)))
				now := e.heapRead(st, k, ArrSort(ArrSort(es)))
				e.assume(st.pc, e.frameRows(now, was, e.heapRead(pre, "$alloc", SInt)))
			}
		}
	}
	e.bumpAlloc(st)
	res := e.callResult(st, x)
	var rl []Value
	if tv, ok := res.(*Tuple); ok {
		rl = tv.Vs
	} else if res != nil {
		rl = []Value{res}
	}
	for _, cl := range ct.Ensures {
		en := e.newEnv(cf, st, pre)
		en.inOld = true
		e.bindResults(en, callee, rl)
		// a clause that mentions the callee's locals cannot be used at a call site: it is simply not assumed
		if g, ok := e.tryClause(en, cl.Text, cl.Expr); ok {
			e.assume(st.pc, g)
		}
	}
	return res, true
}

func (e *Exec) contractLoopInvs(fr *Frame, h *ssa.BasicBlock, li *loopInfo, phis []*ssa.Phi, c *Contract, add func(string, bool, func(map[*ssa.Phi]Value, *State) *Term)) {
	if c == nil {
		return
	}
	if fr.parent != nil && !(fr.fn.Parent() == e.Root && strings.HasSuffix(fr.path, "defer>")) {
		return
	}
	var lks []string
	for key := range c.Loops {
		lks = append(lks, key)
	}
	sort.Strings(lks)
	for _, key0 := range lks {
		cls := c.Loops[key0]
		key, nth := key0, 0
		if i := strings.LastIndex(key0, "#"); i >= 0 {
			if _, err := fmt.Sscan(key0[i+1:], &nth); err == nil && nth > 0 {
				key = key0[:i]
			} else {
				nth = 0
			}
		}
		if !strings.Contains(li.key, key) && !strings.Contains(loopKeyNamed(h), key) {
			continue
		}
		if nth != 0 && loopRank(fr.fn, h, key) != nth {
			continue
		}
		key = key0
		e.usedLoopKeys[key] = true
		for i, cl := range c.Steps[key] {
			cl := cl
			li.steps = append(li.steps, &loopStep{name: clauseName(cl, i), eval: func(now, before map[*ssa.Phi]Value, st *State, point ssa.Instruction) *Term {
				en := e.newEnv(fr, st, e.entry)
				en.phis = now
				en.prevPhis = before
				en.point = point
				// other names: the value in use at the end of the iteration (the instruction that jumps back)
				return e.evalClause(en, cl)
			}})
		}
		for i, cl := range c.Exits[key] {
			cl := cl
			li.exits = append(li.exits, &loopStep{name: clauseName(cl, i), eval: func(now, before map[*ssa.Phi]Value, st *State, point ssa.Instruction) *Term {
				en := e.newEnv(fr, st, e.entry)
				en.phis = now
				en.point = point
				en.domBinding = true
				return e.evalClause(en, cl)
			}})
		}
		for i, cl := range c.Decreases[key] {
			cl := cl
			d := &loopDecr{name: clauseName(cl, i), eval: func(v map[*ssa.Phi]Value, st *State) *Term {
				en := e.newEnv(fr, st, e.entry)
				en.phis = v
				en.point = h.Instrs[len(h.Instrs)-1]
				return en.intTerm(cl.Expr)
			}}
			li.decrPending = append(li.decrPending, d)
		}
		for i, cl := range cls {
			cl := cl
			add(clauseName(cl, i), false, func(v map[*ssa.Phi]Value, st *State) *Term {
				en := e.newEnv(fr, st, e.entry)
				en.phis = v
				en.point = h.Instrs[len(h.Instrs)-1] // other names: the value in use at the loop header
				return e.evalClause(en, cl)
			})
		}
	}
}

// resultIndependence (family M2): a returned list is freshly allocated, empty,
// or (mode fresh-or-tail) a true tail view of one of the first arguments.
func (e *Exec) resultIndependence(fr *Frame, st *State, res []Value) {
	mode := e.Opt.ResultIndependent
	if mode == "" || len(res) != 1 {
		return
	}
	r, ok := res[0].(*Term)
	if !ok || r.Sort != SObj {
		return
	}
	sp := e.P.SPkgs[ModPath]
	if sp == nil {
		return
	}
	lt := sp.Pkg.Scope().Lookup("List")
	if lt == nil {
		return
	}
	listTag := IntLit(int64(e.tag(lt.Type())))
	sl := App(SSl, "o-sl", r)
	id := App(SInt, "sl-id", sl)
	alloc0 := e.heapRead(e.entry, "$alloc", SInt)
	okT := Or(Eq(App(SInt, "sl-len", sl), IntLit(0)), Le(alloc0, id))
	if mode == "fresh-or-tail" && e.rootArgs != nil {
		h := e.heapRead(e.entry, "A_Obj", ArrSort(ArrSort(SObj)))
		aid, aoff, alen := App(SInt, "sl-id", e.rootArgs), App(SInt, "sl-off", e.rootArgs), App(SInt, "sl-len", e.rootArgs)
		for i := 0; i < 3; i++ {
			ai := Select(Select(h, aid), Add(aoff, IntLit(int64(i))))
			asl := App(SSl, "o-sl", ai)
			tail := And(Lt(IntLit(int64(i)), alen), Eq(App(SInt, "o-tag", ai), listTag), Eq(App(SInt, "sl-id", asl), id),
				Eq(Add(App(SInt, "sl-off", sl), App(SInt, "sl-len", sl)), Add(App(SInt, "sl-off", asl), App(SInt, "sl-len", asl))),
				Le(App(SInt, "sl-off", asl), App(SInt, "sl-off", sl)))
			okT = Or(okT, tail)
		}
	}
	e.retN++
	e.oblige(st, "frame:result", fmt.Sprintf("independent-ret%d", e.retN), Implies(Eq(App(SInt, "o-tag", r), listTag), okT), "", id, App(SInt, "sl-len", sl))
}

// pureMethodSort finds the result sort of interface method iface.method in the loaded packages.
func (en *evalEnv) pureMethodSort(iface, method string) string {
	for _, sp := range en.e.P.SPkgs {
		if o := sp.Pkg.Scope().Lookup(iface); o != nil {
			if it, ok := o.Type().Underlying().(*types.Interface); ok {
				for i := 0; i < it.NumMethods(); i++ {
					if it.Method(i).Name() == method {
						sig := it.Method(i).Type().(*types.Signature)
						if sig.Results().Len() == 1 {
							return sortOf(sig.Results().At(0).Type())
						}
					}
				}
			}
		}
	}
	return ""
}

func (en *evalEnv) hasValue(v ssa.Value) bool {
	switch v.(type) {
	case *ssa.Const, *ssa.Parameter, *ssa.FreeVar, *ssa.Global, *ssa.Function:
		return true
	}
	for f := en.fr; f != nil; f = f.parent {
		if _, ok := f.vals[v]; ok {
			return true
		}
	}
	return false
}

// isFieldRef: the debug reference is the selector of a field access (x.f), not a variable named f.
func isFieldRef(dr *ssa.DebugRef) bool {
	if v, ok := dr.Object().(*types.Var); ok {
		return v.IsField()
	}
	return false
}

// shadowed: some local variable or parameter of the function under contract has this name.
func (en *evalEnv) shadowed(name string) bool {
	for _, p := range en.fn.Params {
		if p.Name() == name {
			return true
		}
	}
	for _, b := range en.fn.Blocks {
		for _, in := range b.Instrs {
			if dr, ok := in.(*ssa.DebugRef); ok {
				if id, ok := dr.Expr.(*ast.Ident); ok && id.Name == name {
					if v, ok := dr.Object().(*types.Var); ok && v.Pkg() != nil && v.Parent() != v.Pkg().Scope() && !v.IsField() {
						return true
					}
				}
			}
		}
	}
	return false
}

// loopRank: 1-based rank of the loop with header h among the loops of fn whose key contains key (block order).
func loopRank(fn *ssa.Function, h *ssa.BasicBlock, key string) int {
	rank := 0
	for _, b := range fn.Blocks {
		isHead := false
		for _, p := range b.Preds {
			if b.Dominates(p) {
				isHead = true
			}
		}
		if isHead && (strings.Contains(loopKey(b), key) || strings.Contains(loopKeyNamed(b), key)) {
			rank++
			if b == h {
				return rank
			}
		}
	}
	return 0
}

// pureMethodType: the Go result type of an assumed-pure interface method (nil when not found).
func (en *evalEnv) pureMethodType(iface, method string) types.Type {
	for _, sp := range en.e.P.SPkgs {
		if o := sp.Pkg.Scope().Lookup(iface); o != nil {
			if it, ok := o.Type().Underlying().(*types.Interface); ok {
				for i := 0; i < it.NumMethods(); i++ {
					if it.Method(i).Name() == method {
						sig := it.Method(i).Type().(*types.Signature)
						if sig.Results().Len() == 1 {
							return sig.Results().At(0).Type()
						}
					}
				}
			}
		}
	}
	return nil
}
