package vc

import (
	"golang.org/x/tools/go/ssa"
)

// Expr is a parsed contract expression (see contractparse.go).
type Expr interface{}

func (e *Exec) assumeRequires(fr *Frame, st *State, c *Contract) {}

func (e *Exec) callByContract(fr *Frame, st *State, x *ssa.Call, callee *ssa.Function, ct *Contract) (Value, bool) {
	panic(unsupported{"contracts not implemented"})
}

func (e *Exec) contractLoopInvs(fr *Frame, h *ssa.BasicBlock, li *loopInfo, phis []*ssa.Phi, c *Contract, add func(string, bool, func(map[*ssa.Phi]Value, *State) *Term)) {
}

func (e *Exec) atReturn(fr *Frame, st *State, res []Value, c *Contract) {}
