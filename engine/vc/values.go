package vc

import (
	"sync"
	"fmt"
	"go/constant"
	"go/token"
	"go/types"
	"math/big"
	"strings"

	"golang.org/x/tools/go/ssa"
)

// Value is a symbolic value: *Term, *Tuple, *StructVal or *Loc.
type Value interface{}

type Tuple struct{ Vs []Value }

// StructVal is a struct held in an SSA register (by value).
type StructVal struct {
	T  types.Type
	Fs []Value
}

type LocKind int

const (
	LField LocKind = iota // heap field: Comp[Ref]
	LElem                 // slice element: Comp[Ref][Idx]
	LCell                 // pointer cell of unknown origin: Comp[Ref]
	LLocal                // local (activation-record) variable leaf or struct
	LGlobal               // package-level variable (scalar component)
)

// Loc is a symbolic address.
type Loc struct {
	Kind LocKind
	Comp string
	Ref  *Term
	Idx  *Term
	Key  string     // LLocal: key prefix "L<n>" + path
	Type types.Type // pointee type
}

const structSort = "$struct"
const tupleSort = "$tuple"

func sortOf(t types.Type) string {
	switch u := t.Underlying().(type) {
	case *types.Basic:
		switch {
		case u.Info()&types.IsBoolean != 0:
			return SBool
		default:
			return SInt
		}
	case *types.Pointer, *types.Map, *types.Chan, *types.Signature, *types.Array:
		return SInt
	case *types.Interface:
		return SObj
	case *types.Slice:
		return SSl
	case *types.Struct:
		return structSort
	case *types.Tuple:
		return tupleSort
	}
	return SInt
}

type intInfo struct {
	bits   int
	signed bool
}

func intInfoOf(t types.Type) (intInfo, bool) {
	b, ok := t.Underlying().(*types.Basic)
	if !ok || b.Info()&types.IsInteger == 0 {
		return intInfo{}, false
	}
	switch b.Kind() {
	case types.Int, types.Int64, types.UntypedInt, types.UntypedRune:
		return intInfo{64, true}, true
	case types.Int8:
		return intInfo{8, true}, true
	case types.Int16:
		return intInfo{16, true}, true
	case types.Int32:
		return intInfo{32, true}, true
	case types.Uint, types.Uint64, types.Uintptr:
		return intInfo{64, false}, true
	case types.Uint8:
		return intInfo{8, false}, true
	case types.Uint16:
		return intInfo{16, false}, true
	case types.Uint32:
		return intInfo{32, false}, true
	}
	return intInfo{64, true}, true
}

func pow2(n int) string { return new(big.Int).Lsh(big.NewInt(1), uint(n)).String() }

func (ii intInfo) lo() *Term {
	if ii.signed {
		return BigLit("-" + pow2(ii.bits-1))
	}
	return IntLit(0)
}
func (ii intInfo) hi() *Term {
	if ii.signed {
		return BigLit(new(big.Int).Sub(new(big.Int).Lsh(big.NewInt(1), uint(ii.bits-1)), big.NewInt(1)).String())
	}
	return BigLit(new(big.Int).Sub(new(big.Int).Lsh(big.NewInt(1), uint(ii.bits)), big.NewInt(1)).String())
}

// inRange: lo <= x <= hi
func (ii intInfo) inRange(x *Term) *Term { return And(Le(ii.lo(), x), Le(x, ii.hi())) }

// wrap applies two's complement wrap-around. one=true when |x| exceeds the
// range by at most one modulus (add/sub of in-range values).
func (ii intInfo) wrap(x *Term, one bool) *Term {
	if ii.signed {
		h := BigLit(pow2(ii.bits - 1))
		if one {
			return App(SInt, "wrap1S", x, h)
		}
		return App(SInt, "wrapS", x, h)
	}
	m := BigLit(pow2(ii.bits))
	if one {
		return App(SInt, "wrap1U", x, m)
	}
	return App(SInt, "wrapU", x, m)
}

// typeAssume returns the well-typedness assumption for a value of type t held
// in term x (nil if none).
func typeAssume(t types.Type, x *Term) *Term {
	if ii, ok := intInfoOf(t); ok {
		return ii.inRange(x)
	}
	switch t.Underlying().(type) {
	case *types.Slice:
		return App(SBool, "sl-ok", x)
	case *types.Pointer, *types.Map, *types.Chan, *types.Signature:
		return Le(IntLit(0), x)
	case *types.Interface:
		return Le(IntLit(0), App(SInt, "o-tag", x))
	case *types.Basic:
		if t.Underlying().(*types.Basic).Info()&types.IsString != 0 {
			return And(Le(IntLit(0), App(SInt, "slen", x)), Le(App(SInt, "slen", x), BigLit(pow2(40))))
		}
	}
	return nil
}

func (e *Exec) zeroOf(t types.Type) Value {
	switch u := t.Underlying().(type) {
	case *types.Basic:
		if u.Info()&types.IsBoolean != 0 {
			return False
		}
		if u.Info()&types.IsString != 0 {
			return e.strConst("")
		}
		return IntLit(0)
	case *types.Interface:
		return &Term{"nil-obj", SObj}
	case *types.Slice:
		return &Term{"nil-sl", SSl}
	case *types.Struct:
		sv := &StructVal{T: t}
		for i := 0; i < u.NumFields(); i++ {
			sv.Fs = append(sv.Fs, e.zeroOf(u.Field(i).Type()))
		}
		return sv
	case *types.Tuple:
		tv := &Tuple{}
		for i := 0; i < u.Len(); i++ {
			tv.Vs = append(tv.Vs, e.zeroOf(u.At(i).Type()))
		}
		return tv
	}
	return IntLit(0)
}

// strConst returns the id of a constant string (value semantics: equal
// contents, equal id).
func (e *Exec) strConst(s string) *Term {
	if t, ok := e.strs[s]; ok {
		return t
	}
	name := fmt.Sprintf("strc!%d", len(e.strs))
	e.emit("(declare-const %s Int)", name)
	e.emit("(assert (= (slen %s) %d))", name, len(s))
	if len(s) <= 1024 {
		for i := 0; i < len(s); i++ {
			e.emit("(assert (= (sat %s %d) %d))", name, i, s[i])
		}
	}
	for _, o := range e.strOrder {
		if len(o) == len(s) {
			e.emit("(assert (not (= %s %s)))", name, e.strs[o].S)
		}
	}
	t := &Term{name, SInt}
	e.strs[s] = t
	e.strOrder = append(e.strOrder, s)
	return t
}

func (e *Exec) constVal(c *ssa.Const) Value {
	t := c.Type()
	if c.Value == nil {
		return e.zeroOf(t)
	}
	switch u := t.Underlying().(type) {
	case *types.Basic:
		switch {
		case u.Info()&types.IsBoolean != 0:
			if constant.BoolVal(c.Value) {
				return True
			}
			return False
		case u.Info()&types.IsString != 0:
			return e.strConst(constant.StringVal(c.Value))
		case u.Info()&types.IsInteger != 0:
			v := constant.ToInt(c.Value)
			return BigLit(v.ExactString())
		default:
			// float / complex constant: opaque id per literal text
			return e.floatConst(c.Value.ExactString())
		}
	}
	return e.zeroOf(t)
}

func (e *Exec) floatConst(s string) *Term {
	if t, ok := e.floats[s]; ok {
		return t
	}
	name := fmt.Sprintf("fltc!%d", len(e.floats))
	e.emit("(declare-const %s Int)", name)
	t := &Term{name, SInt}
	e.floats[s] = t
	return t
}

// box converts a concrete value into an interface value.
func (e *Exec) box(v Value, t types.Type) *Term {
	if _, ok := t.Underlying().(*types.Interface); ok {
		return v.(*Term)
	}
	tag := IntLit(int64(e.tag(t)))
	switch x := v.(type) {
	case *Term:
		switch x.Sort {
		case SInt:
			return App(SObj, "mk-obj", tag, x, &Term{"nil-sl", SSl})
		case SBool:
			return App(SObj, "mk-obj", tag, Ite(x, IntLit(1), IntLit(0)), &Term{"nil-sl", SSl})
		case SSl:
			return App(SObj, "mk-obj", tag, IntLit(0), x)
		}
	}
	// struct by value or other: opaque payload
	p := e.fresh(SInt, "boxed")
	return App(SObj, "mk-obj", tag, p, &Term{"nil-sl", SSl})
}

// unbox extracts the payload of interface value x as concrete type t.
func (e *Exec) unbox(x *Term, t types.Type, pc *Term) Value {
	switch sortOf(t) {
	case SInt:
		r := e.def(SInt, App(SInt, "o-int", x))
		if a := typeAssume(t, r); a != nil {
			e.assume(pc, a)
		}
		// canonical representation of boxed values (all are built by box)
		e.assume(pc, Eq(App(SSl, "o-sl", x), &Term{"nil-sl", SSl}))
		return r
	case SBool:
		e.assume(pc, Eq(App(SSl, "o-sl", x), &Term{"nil-sl", SSl}))
		e.assume(pc, Or(Eq(App(SInt, "o-int", x), IntLit(0)), Eq(App(SInt, "o-int", x), IntLit(1))))
		return e.def(SBool, Eq(App(SInt, "o-int", x), IntLit(1)))
	case SSl:
		r := e.def(SSl, App(SSl, "o-sl", x))
		e.assume(pc, App(SBool, "sl-ok", r))
		e.assume(pc, Eq(App(SInt, "o-int", x), IntLit(0)))
		return r
	case SObj:
		return x
	}
	return e.havocValue(t, pc, "unboxed")
}

// render gives a source-like, renaming-tolerant description of an SSA value,
// used in obligation names.
// valNames: source identifier that refers to an SSA value (from DebugRefs);
// used only to match the loop keys written in contracts, never in obligation names.
var valNames sync.Map

var renderNamed bool // guarded by renderMu
var renderMu sync.Mutex

// RenderNamed renders with source names for values that have one.
func RenderNamed(v ssa.Value) string {
	renderMu.Lock()
	defer renderMu.Unlock()
	renderNamed = true
	defer func() { renderNamed = false }()
	return render(v, 0)
}

func render(v ssa.Value, depth int) string {
	if v == nil {
		return "_"
	}
	if renderNamed {
		switch v.(type) {
		case *ssa.Parameter, *ssa.Const, *ssa.Global, *ssa.FreeVar:
		default:
			if n, ok := valNames.Load(v); ok {
				return n.(string)
			}
		}
	}
	if depth > 4 {
		return "_"
	}
	switch x := v.(type) {
	case *ssa.Parameter:
		return x.Name()
	case *ssa.FreeVar:
		return x.Name()
	case *ssa.Const:
		if x.Value == nil {
			return "nil"
		}
		s := x.Value.ExactString()
		if len(s) > 20 {
			s = s[:20]
		}
		return s
	case *ssa.Global:
		return x.Name()
	case *ssa.Alloc:
		if x.Comment != "" {
			return x.Comment
		}
		return "new"
	case *ssa.Phi:
		if x.Comment != "" {
			return x.Comment
		}
		return "phi"
	case *ssa.FieldAddr:
		st := derefStruct(x.X.Type())
		if st != nil {
			return render(x.X, depth+1) + "." + st.s.Field(x.Field).Name()
		}
	case *ssa.Field:
		if st, ok := x.X.Type().Underlying().(*types.Struct); ok {
			return render(x.X, depth+1) + "." + st.Field(x.Field).Name()
		}
	case *ssa.IndexAddr:
		return render(x.X, depth+1) + "[" + render(x.Index, depth+1) + "]"
	case *ssa.Index:
		return render(x.X, depth+1) + "[" + render(x.Index, depth+1) + "]"
	case *ssa.Lookup:
		return render(x.X, depth+1) + "[" + render(x.Index, depth+1) + "]"
	case *ssa.UnOp:
		if x.Op == token.MUL {
			return render(x.X, depth+1)
		}
		return x.Op.String() + render(x.X, depth+1)
	case *ssa.BinOp:
		return render(x.X, depth+1) + x.Op.String() + render(x.Y, depth+1)
	case *ssa.Call:
		if b, ok := x.Call.Value.(*ssa.Builtin); ok {
			var as []string
			for _, a := range x.Call.Args {
				as = append(as, render(a, depth+1))
			}
			return b.Name() + "(" + strings.Join(as, ",") + ")"
		}
		if c := x.Call.StaticCallee(); c != nil {
			return c.Name() + "()"
		}
		if x.Call.Method != nil {
			return render(x.Call.Value, depth+1) + "." + x.Call.Method.Name() + "()"
		}
		return "call()"
	case *ssa.TypeAssert:
		return render(x.X, depth+1) + ".(" + shortType(x.AssertedType) + ")"
	case *ssa.Extract:
		return render(x.Tuple, depth+1) + fmt.Sprintf("#%d", x.Index)
	case *ssa.Slice:
		s := render(x.X, depth+1) + "["
		if x.Low != nil {
			s += render(x.Low, depth+1)
		}
		s += ":"
		if x.High != nil {
			s += render(x.High, depth+1)
		}
		return s + "]"
	case *ssa.Convert:
		return render(x.X, depth+1)
	case *ssa.ChangeType:
		return render(x.X, depth+1)
	case *ssa.MakeInterface:
		return render(x.X, depth+1)
	case *ssa.ChangeInterface:
		return render(x.X, depth+1)
	case *ssa.MakeSlice:
		return "make"
	}
	return "_"
}

// tag returns the stable tag of a concrete type and remembers that this
// script mentions it (facts about it are asserted before the next goal).
func (e *Exec) tag(t types.Type) int {
	id := e.P.Tag(t)
	if e.usedTags == nil {
		e.usedTags = map[int]bool{}
	}
	if !e.usedTags[id] {
		e.usedTags[id] = true
		e.tagOrder = append(e.tagOrder, id)
	}
	return id
}
