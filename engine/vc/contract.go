package vc

import (
	"golang.org/x/tools/go/ssa"
)

// Contract is the parsed //@ block of one function (see contractparse.go).
type Contract struct {
	Func     string
	Requires []*Clause
	Ensures  []*Clause
	Loops    map[string][]*Clause // loop key -> invariants
	Raw      []string
	Options  map[string]bool
	Props    []string
	AtEvals  []*AtEval
	Lemmas   []*Lemma
}

type Clause struct {
	Label string
	Text  string
	Expr  Expr
}

type Contracts struct {
	ByFunc  map[string]*Contract
	Specs   map[string]*SpecFunc
	Order   []string
	Assumed []string
}

func (e *Exec) contractOf(fn *ssa.Function) *Contract {
	if e.Opt.Contracts == nil {
		return nil
	}
	return e.Opt.Contracts.ByFunc[FuncName(fn)]
}

// Lemma: a state-independent obligation attached to a function block (byte
// class tables, constant relations). Each: one obligation per value of Var in [Lo, Hi].
type Lemma struct {
	Label  string
	Var    string
	Lo, Hi int
	Expr   Expr
	Text   string
}
