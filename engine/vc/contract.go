package vc

import (
	"golang.org/x/tools/go/ssa"
)

// Contract is the parsed //@ block of one function (see contractparse.go).
type Contract struct {
	Func     string
	Requires []*Clause
	Ensures  []*Clause
	Loops    map[string][]*Clause // loop key -> invariants
	Raw      []string
	Options  map[string]bool
	Props    []string
	AtEvals  []*AtEval
	Lemmas   []*Lemma
	OnStores []*OnStore
	OnCalls  []*OnCall
	Decreases map[string][]*Clause // loop key -> measures
	Exits     map[string][]*Clause // loop key -> assertions at every edge that leaves the loop (header test false, break, goto out)
	Steps     map[string][]*Clause // loop key -> relations between the values before and after one iteration (prev(x))
	OnMapDeletes []*OnStore // assertions at delete(m, k) where m was loaded from the named field ($key, $was, $owner)
	OnMapUpdates []*OnStore // assertions at m[k] = v where m was loaded from the named field ($key, $value, $was, $owner)
	CountStores []string // struct field names whose stores are counted in ghost $nstore_<field>
	CountCalls []string // callee names whose calls are counted in ghost $ncall_<name>
	MustDefer []string // callee names that must be called through defer (so that they also run on a panicking exit)
	NoStores []string // struct field names that the function (and what it inlines) must never store to
	FullLoops []string // loop keys: the loop is left only through its header test
	NoMapDeletes []string // struct field names holding maps from which the function must never delete an entry
	AfterLoops []*AfterLoop // calls that may only happen after a loop has run to its end
	Confines  []*Confine // parameters whose contents the function reads only through the listed callees
	Accepts   []*Clause // conditions on the entry state under which the function does not raise: no panic instruction and no call of a function that never returns is reachable (faults of the Go run time are the safety obligations)
	OnSlices  []*OnStore // assertions at every slice expression p[lo:hi] of the named parameter ($lo, $hi)
}

// AfterLoop: every call of Callee in the function is dominated by the exit of the Nth loop (in block order)
// whose key contains LoopKey, taken through the loop's own header test: the call cannot be reached without
// the loop having run to its end. Decided on the control-flow graph (no solver).
type AfterLoop struct {
	Callee  string
	LoopKey string
	Nth     int
}

// Confine: the function itself never indexes, slices, copies, converts, stores or returns the named
// (slice) parameter; it may take its length, range over it (the current element only) and hand it to
// the listed callees. Slices covered by an on-slice clause are checked against that clause instead.
type Confine struct {
	Param string
	To    []string
}

type Clause struct {
	Label string
	Text  string
	Expr  Expr
}

type Contracts struct {
	ByFunc  map[string]*Contract
	Specs   map[string]*SpecFunc
	Order   []string
	Assumed []string
	StableStructs []string // struct types whose fields are not reachable from evaluated Lisp code: kept across opaque calls (assumed)
	PureMethods map[string]bool // "Iface.Method": dynamic calls are a pure function of the receiver (assumed)
	PureFuncs   map[string]bool // "pkg.func": static calls are a pure function of the argument values (assumed)
	Sweeps map[string][]string // package-wide contracts: "operands-kept" -> packages ("cl", "slip")
}

func (e *Exec) contractOf(fn *ssa.Function) *Contract {
	if e.Opt.Contracts == nil {
		return nil
	}
	return e.Opt.Contracts.ByFunc[FuncName(fn)]
}

// Lemma: a state-independent obligation attached to a function block (byte
// class tables, constant relations). Each: one obligation per value of Var in [Lo, Hi].
type Lemma struct {
	Label  string
	Var    string
	Lo, Hi int
	Expr   Expr
	Text   string
}

// OnStore: an assertion checked at every store to the named struct field in
// the function under contract; `was` is the field's value before the store,
// `now` the value being stored.
type OnStore struct {
	Field string
	Label string
	Expr  Expr
	Text  string
	used  int
}

// OnCall: an assertion checked at calls of the named function / method in the
// function under contract; $arg0, $arg1, ... are the call's arguments (without
// the receiver). Name may carry "#n" to select the n-th such call (in block order).
type OnCall struct {
	Callee string
	Nth    int
	Label  string
	Expr   Expr
	Text   string
	used   int
}
