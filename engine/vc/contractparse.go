package vc

import (
	"golang.org/x/tools/go/ssa"
	"fmt"
	"os"
	"path/filepath"
	"strings"
	"unicode"
)

// Contract files: /repo/**/verif_contracts.go, `//go:build verif`, comment
// only. Grammar of a block:
//
//	//@ func <FuncName>            (FuncName as printed by vc.FuncName)
//	//@   requires [label:] <expr>
//	//@   ensures  [label:] <expr>
//	//@   loop <key substring>: invariant [label:] <expr>
//	//@   exact                    (family I: Fixnum arithmetic must not wrap)
//	//@   option <name>
//	//@ define <name>(<params>) = <expr>      (spec function, inlined)
//	//@ assume-contract <callee> : <free text>   (listed as trusted, see evidence)

// Expression AST
type (
	EIdent  struct{ Name string }
	EInt    struct{ Val string }
	EStr    struct{ Val string }
	EBool   struct{ Val bool }
	ENil    struct{}
	EUnary  struct{ Op string; X Expr }
	EBinary struct {
		Op   string
		X, Y Expr
	}
	ECall struct {
		Fun  string
		Args []Expr
	}
	ESel struct {
		X   Expr
		Sel string
	}
	EIndex struct{ X, I Expr }
	ESlice struct{ X, Lo, Hi Expr }
	EQuant struct {
		Forall bool
		Vars   []string
		Body   Expr
	}
	EOld struct{ X Expr }
	ETernary struct{ C, A, B Expr }
)

type SpecFunc struct {
	Name   string
	Params []string
	Body   Expr
}

type ctok struct {
	kind string // id int op str eof
	s    string
}

type lexer struct {
	toks []ctok
	pos  int
}

func lex(src string) ([]ctok, error) {
	var toks []ctok
	i := 0
	for i < len(src) {
		c := src[i]
		switch {
		case c == ' ' || c == '\t':
			i++
		case unicode.IsLetter(rune(c)) || c == '_' || c == '$':
			j := i
			for j < len(src) && (unicode.IsLetter(rune(src[j])) || unicode.IsDigit(rune(src[j])) || src[j] == '_' || src[j] == '$') {
				j++
			}
			toks = append(toks, ctok{"id", src[i:j]})
			i = j
		case unicode.IsDigit(rune(c)):
			j := i
			for j < len(src) && unicode.IsDigit(rune(src[j])) {
				j++
			}
			toks = append(toks, ctok{"int", src[i:j]})
			i = j
		case c == '"':
			// string literal (no escapes)
			j := strings.IndexByte(src[i+1:], '"')
			if j < 0 {
				return nil, fmt.Errorf("unterminated string literal in %q", src)
			}
			toks = append(toks, ctok{"str", src[i+1 : i+1+j]})
			i += j + 2
		case c == '\'':
			// character literal 'x'
			if i+2 < len(src) && src[i+2] == '\'' {
				toks = append(toks, ctok{"int", fmt.Sprint(int(src[i+1]))})
				i += 3
			} else if i+3 < len(src) && src[i+1] == '\\' && src[i+3] == '\'' {
				m := map[byte]int{'n': 10, 't': 9, '\\': 92, '\'': 39, 'r': 13}
				toks = append(toks, ctok{"int", fmt.Sprint(m[src[i+2]])})
				i += 4
			} else {
				return nil, fmt.Errorf("bad char literal at %d in %q", i, src)
			}
		default:
			for _, op := range []string{"==>", "<==>", "::", "==", "!=", "<=", ">=", "&&", "||", "<", ">", "+", "-", "*", "/", "%", "!", "(", ")", "[", "]", ".", ",", ":", "?"} {
				if strings.HasPrefix(src[i:], op) {
					toks = append(toks, ctok{"op", op})
					i += len(op)
					goto next
				}
			}
			return nil, fmt.Errorf("unexpected %q in %q", string(c), src)
		next:
		}
	}
	toks = append(toks, ctok{"eof", ""})
	return toks, nil
}

func ParseExpr(src string) (e Expr, err error) {
	toks, err := lex(src)
	if err != nil {
		return nil, err
	}
	l := &lexer{toks: toks}
	defer func() {
		if r := recover(); r != nil {
			err = fmt.Errorf("parse %q: %v", src, r)
		}
	}()
	e = l.parseImpl()
	if l.peek().kind != "eof" {
		panic("trailing input at " + l.peek().s)
	}
	return e, nil
}

func (l *lexer) peek() ctok { return l.toks[l.pos] }
func (l *lexer) next() ctok { t := l.toks[l.pos]; l.pos++; return t }
func (l *lexer) accept(op string) bool {
	if t := l.peek(); t.kind == "op" && t.s == op {
		l.pos++
		return true
	}
	return false
}
func (l *lexer) expect(op string) {
	if !l.accept(op) {
		panic(fmt.Sprintf("expected %q, got %q", op, l.peek().s))
	}
}

func (l *lexer) parseImpl() Expr {
	x := l.parseTernary()
	if l.accept("==>") {
		y := l.parseImpl()
		return &EBinary{"==>", x, y}
	}
	if l.accept("<==>") {
		y := l.parseImpl()
		return &EBinary{"<==>", x, y}
	}
	return x
}

func (l *lexer) parseTernary() Expr {
	c := l.parseOr()
	if l.accept("?") {
		a := l.parseTernary()
		l.expect(":")
		b := l.parseTernary()
		return &ETernary{c, a, b}
	}
	return c
}

func (l *lexer) parseOr() Expr {
	x := l.parseAnd()
	for l.accept("||") {
		x = &EBinary{"||", x, l.parseAnd()}
	}
	return x
}
func (l *lexer) parseAnd() Expr {
	x := l.parseCmp()
	for l.accept("&&") {
		x = &EBinary{"&&", x, l.parseCmp()}
	}
	return x
}
func (l *lexer) parseCmp() Expr {
	x := l.parseAdd()
	for {
		t := l.peek()
		if t.kind == "op" {
			switch t.s {
			case "==", "!=", "<", "<=", ">", ">=":
				l.pos++
				x = &EBinary{t.s, x, l.parseAdd()}
				continue
			}
		}
		return x
	}
}
func (l *lexer) parseAdd() Expr {
	x := l.parseMul()
	for {
		t := l.peek()
		if t.kind == "op" && (t.s == "+" || t.s == "-") {
			l.pos++
			x = &EBinary{t.s, x, l.parseMul()}
			continue
		}
		return x
	}
}
func (l *lexer) parseMul() Expr {
	x := l.parseUnary()
	for {
		t := l.peek()
		if t.kind == "op" && (t.s == "*" || t.s == "/" || t.s == "%") {
			l.pos++
			x = &EBinary{t.s, x, l.parseUnary()}
			continue
		}
		return x
	}
}
func (l *lexer) parseUnary() Expr {
	if l.accept("!") {
		return &EUnary{"!", l.parseUnary()}
	}
	if l.accept("-") {
		return &EUnary{"-", l.parseUnary()}
	}
	return l.parsePostfix()
}
func (l *lexer) parsePostfix() Expr {
	x := l.parsePrimary()
	for {
		switch {
		case l.accept("."):
			t := l.next()
			if t.kind != "id" {
				panic("field name expected")
			}
			x = &ESel{x, t.s}
		case l.accept("["):
			var lo, hi Expr
			if !(l.peek().kind == "op" && l.peek().s == ":") {
				lo = l.parseImpl()
			}
			if l.accept(":") {
				if !(l.peek().kind == "op" && l.peek().s == "]") {
					hi = l.parseImpl()
				}
				l.expect("]")
				x = &ESlice{x, lo, hi}
			} else {
				l.expect("]")
				x = &EIndex{x, lo}
			}
		default:
			return x
		}
	}
}
func (l *lexer) parsePrimary() Expr {
	t := l.next()
	switch t.kind {
	case "int":
		return &EInt{t.s}
	case "str":
		return &EStr{t.s}
	case "id":
		switch t.s {
		case "true":
			return &EBool{true}
		case "false":
			return &EBool{false}
		case "nil":
			return &ENil{}
		case "forall", "exists":
			var vars []string
			for {
				v := l.next()
				if v.kind != "id" {
					panic("bound variable expected")
				}
				vars = append(vars, v.s)
				if !l.accept(",") {
					break
				}
			}
			l.expect("::")
			body := l.parseImpl()
			return &EQuant{Forall: t.s == "forall", Vars: vars, Body: body}
		case "old":
			l.expect("(")
			x := l.parseImpl()
			l.expect(")")
			return &EOld{x}
		}
		if l.accept("(") {
			var args []Expr
			if !l.accept(")") {
				for {
					args = append(args, l.parseImpl())
					if l.accept(")") {
						break
					}
					l.expect(",")
				}
			}
			return &ECall{t.s, args}
		}
		return &EIdent{t.s}
	case "op":
		if t.s == "(" {
			x := l.parseImpl()
			l.expect(")")
			return x
		}
	}
	panic("unexpected token " + t.s)
}

// LoadContracts reads every verif_contracts.go below dir.
// Attach makes the corpus-wide assumptions (pure interface methods) known to the program's static analyses.
func (cs *Contracts) Attach(p *Prog) {
	p.modMu.Lock()
	defer p.modMu.Unlock()
	p.PureMethods = cs.PureMethods
	p.PureFuncs = cs.PureFuncs
	p.mods = map[*ssa.Function]*ModSet{}
}

func LoadContracts(dir string) (*Contracts, []string, error) {
	cs := &Contracts{ByFunc: map[string]*Contract{}, Specs: map[string]*SpecFunc{}}
	var files []string
	err := filepath.Walk(dir, func(path string, info os.FileInfo, err error) error {
		if err != nil {
			return nil
		}
		if info.IsDir() {
			if info.Name() == ".git" {
				return filepath.SkipDir
			}
			return nil
		}
		if info.Name() == "verif_contracts.go" {
			files = append(files, path)
		}
		return nil
	})
	if err != nil {
		return nil, nil, err
	}
	for _, f := range files {
		b, err := os.ReadFile(f)
		if err != nil {
			return nil, nil, err
		}
		if err := cs.parseFile(f, string(b)); err != nil {
			return nil, nil, err
		}
	}
	return cs, files, nil
}

func (cs *Contracts) parseFile(path, src string) error {
	var cur *Contract
	var pending string
	flush := func(line string, ln int) error {
		line = strings.TrimSpace(line)
		if line == "" {
			return nil
		}
		word := line
		rest := ""
		if i := strings.IndexAny(line, " \t"); i >= 0 {
			word, rest = line[:i], strings.TrimSpace(line[i+1:])
		}
		switch word {
		case "func":
			name := strings.Fields(rest)[0]
			cur = &Contract{Func: name, Loops: map[string][]*Clause{}, Options: map[string]bool{}}
			if old := cs.ByFunc[name]; old != nil {
				return fmt.Errorf("%s:%d: duplicate contract for %s", path, ln, name)
			}
			cs.ByFunc[name] = cur
			cs.Order = append(cs.Order, name)
		case "requires", "ensures":
			if cur == nil {
				return fmt.Errorf("%s:%d: clause outside func block", path, ln)
			}
			cl, err := parseClause(rest)
			if err != nil {
				return fmt.Errorf("%s:%d: %v", path, ln, err)
			}
			if word == "requires" {
				cur.Requires = append(cur.Requires, cl)
			} else {
				cur.Ensures = append(cur.Ensures, cl)
			}
		case "accepts":
			if cur == nil {
				return fmt.Errorf("%s:%d: clause outside func block", path, ln)
			}
			cl, err := parseClause(rest)
			if err != nil {
				return fmt.Errorf("%s:%d: %v", path, ln, err)
			}
			cur.Accepts = append(cur.Accepts, cl)
		case "loop":
			if cur == nil {
				return fmt.Errorf("%s:%d: loop outside func block", path, ln)
			}
			if j := strings.Index(rest, ": step "); j >= 0 && !strings.Contains(rest[:j], ": invariant ") {
				key := strings.TrimSpace(rest[:j])
				cl, err := parseClause(rest[j+len(": step "):])
				if err != nil {
					return fmt.Errorf("%s:%d: %v", path, ln, err)
				}
				if cur.Steps == nil {
					cur.Steps = map[string][]*Clause{}
				}
				cur.Steps[key] = append(cur.Steps[key], cl)
				if _, ok := cur.Loops[key]; !ok {
					cur.Loops[key] = nil
				}
				break
			}
			if j := strings.Index(rest, ": exit "); j >= 0 && !strings.Contains(rest[:j], ": invariant ") {
				key := strings.TrimSpace(rest[:j])
				cl, err := parseClause(rest[j+len(": exit "):])
				if err != nil {
					return fmt.Errorf("%s:%d: %v", path, ln, err)
				}
				if cur.Exits == nil {
					cur.Exits = map[string][]*Clause{}
				}
				cur.Exits[key] = append(cur.Exits[key], cl)
				if _, ok := cur.Loops[key]; !ok {
					cur.Loops[key] = nil // the key must match a loop
				}
				break
			}
			if j := strings.Index(rest, ": decreases "); j >= 0 && !strings.Contains(rest[:j], ": invariant ") {
				key := strings.TrimSpace(rest[:j])
				cl, err := parseClause(rest[j+len(": decreases "):])
				if err != nil {
					return fmt.Errorf("%s:%d: %v", path, ln, err)
				}
				if cur.Decreases == nil {
					cur.Decreases = map[string][]*Clause{}
				}
				cur.Decreases[key] = append(cur.Decreases[key], cl)
				if _, ok := cur.Loops[key]; !ok {
					cur.Loops[key] = nil // the key must match a loop
				}
				break
			}
			i := strings.Index(rest, ": invariant ")
			if i < 0 {
				return fmt.Errorf("%s:%d: expected `loop <key>: invariant <expr>` or `loop <key>: decreases <expr>`", path, ln)
			}
			key := strings.TrimSpace(rest[:i])
			cl, err := parseClause(rest[i+len(": invariant "):])
			if err != nil {
				return fmt.Errorf("%s:%d: %v", path, ln, err)
			}
			cur.Loops[key] = append(cur.Loops[key], cl)
		case "at-eval":
			cl, err := parseClause(rest)
			if err != nil {
				return fmt.Errorf("%s:%d: %v", path, ln, err)
			}
			ae := &AtEval{Label: cl.Label, Text: cl.Text, Cond: &EBool{true}, Body: cl.Expr}
			if b, ok := cl.Expr.(*EBinary); ok && b.Op == "==>" {
				ae.Cond, ae.Body = b.X, b.Y
			}
			cur.AtEvals = append(cur.AtEvals, ae)
		case "on-map-delete":
			f := strings.Fields(rest)
			if len(f) < 2 {
				return fmt.Errorf("%s:%d: on-map-delete <field> [label:] <expr>", path, ln)
			}
			cl, err := parseClause(strings.TrimSpace(rest[len(f[0]):]))
			if err != nil {
				return fmt.Errorf("%s:%d: %v", path, ln, err)
			}
			cur.OnMapDeletes = append(cur.OnMapDeletes, &OnStore{Field: f[0], Label: cl.Label, Expr: cl.Expr, Text: cl.Text})
		case "on-map-update":
			f := strings.Fields(rest)
			if len(f) < 2 {
				return fmt.Errorf("%s:%d: on-map-update <field> [label:] <expr>", path, ln)
			}
			cl, err := parseClause(strings.TrimSpace(rest[len(f[0]):]))
			if err != nil {
				return fmt.Errorf("%s:%d: %v", path, ln, err)
			}
			cur.OnMapUpdates = append(cur.OnMapUpdates, &OnStore{Field: f[0], Label: cl.Label, Expr: cl.Expr, Text: cl.Text})
		case "count-stores":
			cur.CountStores = append(cur.CountStores, strings.Fields(rest)...)
		case "count-calls":
			cur.CountCalls = append(cur.CountCalls, strings.Fields(rest)...)
		case "must-defer":
			cur.MustDefer = append(cur.MustDefer, strings.Fields(rest)...)
		case "no-store":
			cur.NoStores = append(cur.NoStores, strings.Fields(rest)...)
		case "full-loop":
			cur.FullLoops = append(cur.FullLoops, rest)
		case "no-map-delete":
			cur.NoMapDeletes = append(cur.NoMapDeletes, strings.Fields(rest)...)
		case "after-loop":
			// after-loop <callee> <loopkey>[#n]
			f := strings.Fields(rest)
			if len(f) != 2 {
				return fmt.Errorf("%s:%d: after-loop <callee> <loopkey>[#n]", path, ln)
			}
			al := &AfterLoop{Callee: f[0], LoopKey: f[1], Nth: 1}
			if k := strings.LastIndex(f[1], "#"); k >= 0 {
				al.LoopKey = f[1][:k]
				fmt.Sscan(f[1][k+1:], &al.Nth)
			}
			cur.AfterLoops = append(cur.AfterLoops, al)
		case "confine":
			// confine <param> [to <callee> ...]
			f := strings.Fields(rest)
			if len(f) < 1 || (len(f) > 1 && f[1] != "to") {
				return fmt.Errorf("%s:%d: confine <param> [to <callee> ...]", path, ln)
			}
			cf := &Confine{Param: f[0]}
			if len(f) > 2 {
				cf.To = f[2:]
			}
			cur.Confines = append(cur.Confines, cf)
		case "on-slice":
			f := strings.Fields(rest)
			if len(f) < 2 {
				return fmt.Errorf("%s:%d: on-slice <param> [label:] <expr over $lo / $hi>", path, ln)
			}
			cl, err := parseClause(strings.TrimSpace(rest[len(f[0]):]))
			if err != nil {
				return fmt.Errorf("%s:%d: %v", path, ln, err)
			}
			cur.OnSlices = append(cur.OnSlices, &OnStore{Field: f[0], Label: cl.Label, Expr: cl.Expr, Text: cl.Text})
		case "on-call":
			f := strings.Fields(rest)
			if len(f) < 2 {
				return fmt.Errorf("%s:%d: on-call <callee>[#n] [label:] <expr>", path, ln)
			}
			cl, err := parseClause(strings.TrimSpace(rest[len(f[0]):]))
			if err != nil {
				return fmt.Errorf("%s:%d: %v", path, ln, err)
			}
			oc := &OnCall{Callee: f[0], Label: cl.Label, Expr: cl.Expr, Text: cl.Text}
			if k := strings.Index(f[0], "#"); k >= 0 {
				oc.Callee = f[0][:k]
				fmt.Sscan(f[0][k+1:], &oc.Nth)
			}
			cur.OnCalls = append(cur.OnCalls, oc)
		case "on-store":
			// on-store <field> [label:] <expr over was / now>
			f := strings.Fields(rest)
			if len(f) < 2 {
				return fmt.Errorf("%s:%d: on-store <field> [label:] <expr>", path, ln)
			}
			cl, err := parseClause(strings.TrimSpace(rest[len(f[0]):]))
			if err != nil {
				return fmt.Errorf("%s:%d: %v", path, ln, err)
			}
			cur.OnStores = append(cur.OnStores, &OnStore{Field: f[0], Label: cl.Label, Expr: cl.Expr, Text: cl.Text})
		case "lemma":
			cl, err := parseClause(rest)
			if err != nil {
				return fmt.Errorf("%s:%d: %v", path, ln, err)
			}
			cur.Lemmas = append(cur.Lemmas, &Lemma{Label: cl.Label, Expr: cl.Expr, Text: cl.Text})
		case "lemma-each":
			// lemma-each <var> <lo> <hi> <label>: <expr>
			f := strings.Fields(rest)
			if len(f) < 5 {
				return fmt.Errorf("%s:%d: lemma-each <var> <lo> <hi> <label>: <expr>", path, ln)
			}
			var lo, hi int
			fmt.Sscan(f[1], &lo)
			fmt.Sscan(f[2], &hi)
			cl, err := parseClause(strings.TrimSpace(rest[strings.Index(rest, f[3]):]))
			if err != nil {
				return fmt.Errorf("%s:%d: %v", path, ln, err)
			}
			cur.Lemmas = append(cur.Lemmas, &Lemma{Label: cl.Label, Var: f[0], Lo: lo, Hi: hi, Expr: cl.Expr, Text: cl.Text})
		case "property":
			cur.Props = append(cur.Props, strings.Fields(rest)...)
		case "exact":
			cur.Options["exact"] = true
		case "operands-kept":
			cur.Options["operands-kept"] = true
		case "option":
			cur.Options[rest] = true
		case "define":
			i := strings.Index(rest, "=")
			if i < 0 {
				return fmt.Errorf("%s:%d: define needs =", path, ln)
			}
			head := strings.TrimSpace(rest[:i])
			lp := strings.Index(head, "(")
			name := head[:lp]
			var params []string
			for _, p := range strings.Split(strings.TrimSuffix(head[lp+1:], ")"), ",") {
				if p = strings.TrimSpace(p); p != "" {
					params = append(params, p)
				}
			}
			body, err := ParseExpr(strings.TrimSpace(rest[i+1:]))
			if err != nil {
				return fmt.Errorf("%s:%d: %v", path, ln, err)
			}
			cs.Specs[name] = &SpecFunc{Name: name, Params: params, Body: body}
		case "stable-struct":
			cs.StableStructs = append(cs.StableStructs, strings.Fields(rest)...)
			cs.Assumed = append(cs.Assumed, "fields of "+rest+" are not changed by evaluating Lisp code or by opaque callees (values of this type are private to the built-in's activation)")
		case "pure-method":
			if cs.PureMethods == nil {
				cs.PureMethods = map[string]bool{}
			}
			for _, f := range strings.Fields(rest) {
				cs.PureMethods[f] = true
			}
			cs.Assumed = append(cs.Assumed, "interface method "+rest+" is a pure function of its receiver")
		case "pure-func":
			if cs.PureFuncs == nil {
				cs.PureFuncs = map[string]bool{}
			}
			for _, f := range strings.Fields(rest) {
				cs.PureFuncs[f] = true
			}
			cs.Assumed = append(cs.Assumed, "function "+rest+" is a pure function of its argument values (no effect, same result for the same arguments while the numbers they denote are unchanged)")
		case "every-function":
			// every-function <pkg> <contract>: a contract that every function of the package is under
			f := strings.Fields(rest)
			if len(f) != 2 {
				return fmt.Errorf("%s:%d: every-function <package> <contract>", path, ln)
			}
			if cs.Sweeps == nil {
				cs.Sweeps = map[string][]string{}
			}
			cs.Sweeps[f[1]] = append(cs.Sweeps[f[1]], f[0])
		case "assume-contract":
			cs.Assumed = append(cs.Assumed, rest)
		default:
			return fmt.Errorf("%s:%d: unknown directive %q", path, ln, word)
		}
		return nil
	}
	startLn := 0
	for i, raw := range strings.Split(src, "\n") {
		t := strings.TrimSpace(raw)
		if !strings.HasPrefix(t, "//@") {
			continue
		}
		body := strings.TrimPrefix(t, "//@")
		// continuation lines start with "//@     |"
		if tb := strings.TrimSpace(body); strings.HasPrefix(tb, "|") {
			pending += " " + strings.TrimSpace(tb[1:])
			continue
		}
		if pending != "" {
			if err := flush(pending, startLn); err != nil {
				return err
			}
		}
		pending = body
		startLn = i + 1
	}
	if pending != "" {
		if err := flush(pending, startLn); err != nil {
			return err
		}
	}
	return nil
}

// ParseClauseText parses "label: expr" (for contracts synthesised by a package-wide clause).
func ParseClauseText(s string) (*Clause, error) { return parseClause(s) }

func parseClause(s string) (*Clause, error) {
	label := ""
	// optional label "name:" (identifier chars and dashes) before the expression
	if i := strings.Index(s, ":"); i > 0 && !strings.HasPrefix(s[i:], "::") {
		cand := strings.TrimSpace(s[:i])
		ok := cand != ""
		for _, r := range cand {
			if !(unicode.IsLetter(r) || unicode.IsDigit(r) || r == '-' || r == '_') {
				ok = false
			}
		}
		if ok {
			label = cand
			s = s[i+1:]
		}
	}
	e, err := ParseExpr(strings.TrimSpace(s))
	if err != nil {
		return nil, err
	}
	return &Clause{Label: label, Text: strings.TrimSpace(s), Expr: e}, nil
}
