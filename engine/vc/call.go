package vc

import (
	"os"
	"sort"
	"fmt"
	"go/types"
	"strings"

	"golang.org/x/tools/go/ssa"
)

func inModule(fn *ssa.Function) bool {
	return fn != nil && fn.Pkg != nil && fn.Pkg.Pkg != nil && strings.HasPrefix(fn.Pkg.Pkg.Path(), ModPath)
}

func instrCount(fn *ssa.Function) int {
	n := 0
	for _, b := range fn.Blocks {
		for _, in := range b.Instrs {
			if _, ok := in.(*ssa.DebugRef); !ok {
				n++
			}
		}
	}
	return n
}

func hasLoop(fn *ssa.Function) bool {
	for _, b := range fn.Blocks {
		for _, p := range b.Preds {
			if b.Dominates(p) {
				return true
			}
		}
	}
	return false
}

// call models one call instruction. ok=false: the call never returns.
func (e *Exec) call(fr *Frame, st *State, x *ssa.Call) (Value, bool) {
	c := &x.Call
	e.onCall(fr, st, x)
	e.sharedPrinterTouch(st, x)
	if fr.parent == nil {
		if k := "L$ncall_" + calleeName(c); st.heap[k] != nil {
			st.heap[k] = e.def(SInt, Add(st.heap[k], IntLit(1)))
		}
	}
	for _, h := range e.hooks {
		if handled, res := h.Call(e, fr, st, c, x); handled {
			if res == nil && x.Type() != nil {
				if tt, ok := x.Type().(*types.Tuple); !ok || tt.Len() > 0 {
					res = e.havocValue(x.Type(), st.pc, "hook")
				}
			}
			return res, true
		}
	}
	if b, ok := c.Value.(*ssa.Builtin); ok {
		return e.builtin(fr, st, x, b)
	}
	callee := c.StaticCallee()
	if callee == nil && c.Method != nil {
		// slip.Locker (NoOpLocker / mutex wrappers): assumed to have no effect on slip data
		switch c.Method.Name() {
		case "Lock", "Unlock", "RLock", "RUnlock":
			if n, ok := c.Value.Type().(*types.Named); ok && n.Obj().Name() == "Locker" {
				return nil, true
			}
		}
	}
	if os.Getenv("SLIPVC_DEBUG") != "" && callee == nil && c.Method != nil {
		fmt.Fprintf(os.Stderr, "dyn call %s on %T %v args=%d\n", c.Method.Name(), c.Value.Type(), c.Value.Type(), len(c.Args))
	}
	if callee == nil && c.Method != nil && len(c.Args) == 0 && e.Opt.Contracts != nil {
		if n, ok := c.Value.Type().(*types.Named); ok && e.Opt.Contracts.PureMethods[n.Obj().Name()+"."+c.Method.Name()] {
			rt := x.Type()
			if rs := sortOf(rt); rs == SInt || rs == SBool || rs == SObj || rs == SSl {
				return e.pureMethod(c.Method.Name(), rs, e.term(fr, st, c.Value)), true
			}
		}
	}
	if callee == nil {
		// dynamic call: interface method or function value
		e.argsEscape(fr, st, c)
		e.newEpoch(st)
		return e.callResult(st, x), true
	}
	if e.P.NoReturn[callee] {
		e.atNoReturnCall(fr, st, x, callee)
		return nil, false
	}
	if e.Opt.Contracts != nil && e.Opt.Contracts.PureFuncs[FuncName(callee)] && fr.fn != callee {
		if v, ok := e.pureFuncCall(fr, st, x, callee); ok {
			return v, true
		}
	}
	if ct := e.contractOf(callee); ct != nil && fr.fn != callee {
		return e.callByContract(fr, st, x, callee, ct)
	}
	if v, ok, handled := e.bigCall(fr, st, x, callee); handled {
		return v, ok
	}
	if v, ok, handled := e.knownCall(fr, st, x, callee); handled {
		return v, ok
	}
	if e.canInline(fr, callee) {
		return e.inline(fr, st, x, callee)
	}
	// opaque call
	for _, a := range c.Args {
		e.exactUse(fr, st, a, "arg")
	}
	e.argsEscape(fr, st, c)
	if os.Getenv("SLIPVC_DEBUG") == "havoc" {
		fmt.Fprintf(os.Stderr, "opaque call %s in %s mods=%v all=%v\n", callee.String(), FuncName(fr.fn), len(e.P.ModSetOf(callee).Comps), e.P.ModSetOf(callee).All)
	}
	e.havoc(st, e.P.ModSetOf(callee))
	e.bumpAlloc(st)
	return e.callResult(st, x), true
}

func (e *Exec) bumpAlloc(st *State) {
	old := e.heapRead(st, "$alloc", SInt)
	na := e.fresh(SInt, "alloc")
	e.emit("(assert (<= %s %s))", old.S, na.S)
	st.heap["$alloc"] = na
}

func (e *Exec) callResult(st *State, x *ssa.Call) Value {
	t := x.Type()
	if tt, ok := t.(*types.Tuple); ok && tt.Len() == 0 {
		return nil
	}
	v := e.havocValue(t, st.pc, "ret")
	e.assumeFreshRefs(st, t, v)
	return v
}

// assumeFreshRefs: references returned by calls exist now.
func (e *Exec) assumeFreshRefs(st *State, t types.Type, v Value) {
	switch x := v.(type) {
	case *Term:
		switch t.Underlying().(type) {
		case *types.Pointer, *types.Map, *types.Chan:
			e.assume(st.pc, Lt(x, e.heapRead(st, "$alloc", SInt)))
		case *types.Slice:
			e.assume(st.pc, Lt(App(SInt, "sl-id", x), e.heapRead(st, "$alloc", SInt)))
		}
	case *Tuple:
		if tt, ok := t.(*types.Tuple); ok {
			for i, f := range x.Vs {
				e.assumeFreshRefs(st, tt.At(i).Type(), f)
			}
		}
	}
}

// argsEscape: local variables whose address is passed to opaque code may be
// written by it.
func (e *Exec) argsEscape(fr *Frame, st *State, c *ssa.CallCommon) {
	vals := append([]ssa.Value{}, c.Args...)
	if c.Method == nil {
		vals = append(vals, c.Value)
	}
	for _, a := range vals {
		if lv, ok := e.val(fr, a).(*Loc); ok && lv.Kind == LLocal {
			e.havocLocal(st, rootKey(lv.Key))
		}
	}
	// variables captured by closures may be written by any opaque call
	for f := fr; f != nil; f = f.parent {
		for _, k := range sortedKeys(f.esc) {
			e.havocLocal(st, k)
		}
	}
}

func rootKey(k string) string {
	if i := strings.Index(k, "."); i >= 0 {
		return k[:i]
	}
	return k
}

func (e *Exec) canInline(fr *Frame, callee *ssa.Function) bool {
	if !inModule(callee) || len(callee.Blocks) == 0 {
		return false
	}
	if fr.depth >= e.Opt.InlineDepth {
		return false
	}
	if instrCount(callee) > e.Opt.InlineSize {
		return false
	}
	if callee.Recover != nil {
		return false
	}
	for f := fr; f != nil; f = f.parent {
		if f.fn == callee {
			return false
		}
	}
	if hasLoop(callee) && !e.Opt.InlineLoops {
		return false
	}
	for _, b := range callee.Blocks {
		for _, in := range b.Instrs {
			switch in.(type) {
			case *ssa.Defer, *ssa.Go, *ssa.Select:
				return false
			}
		}
	}
	return true
}

func (e *Exec) inline(fr *Frame, st *State, x *ssa.Call, callee *ssa.Function) (Value, bool) {
	e.inlineN++
	if fr.inlCount == nil {
		fr.inlCount = map[*ssa.Function]int{}
	}
	fr.inlCount[callee]++
	seg := callee.Name()
	if n := fr.inlCount[callee]; n > 1 {
		seg += fmt.Sprintf("#%d", n)
	}
	nf := &Frame{fn: callee, vals: map[ssa.Value]Value{}, locals: map[*ssa.Alloc]string{}, parent: fr, depth: fr.depth + 1,
		path: fr.path + seg + ">"}
	for i, p := range callee.Params {
		nf.vals[p] = e.val(fr, x.Call.Args[i])
		if e.Opt.Exact {
			if ex := e.exOf(fr, x.Call.Args[i], nil); ex != nil {
				e.setExact(nf, p, ex)
			}
		}
	}
	out, res := e.execFunc(nf, st.clone())
	if out == nil {
		return nil, false
	}
	// continue in the caller with the callee's exit state
	st.pc = out.pc
	st.heap = out.heap
	st.epoch = out.epoch
	for k := range nf.esc {
		fr.escaped(k)
	}
	return res, true
}

func (e *Exec) atNoReturnCall(fr *Frame, st *State, x *ssa.Call, callee *ssa.Function) {
	e.acceptsCheck(fr, st, callee.Name(), e.posOf(x))
}

func (e *Exec) sl(fr *Frame, st *State, v ssa.Value) *Term { return e.term(fr, st, v) }

func (e *Exec) builtin(fr *Frame, st *State, x *ssa.Call, b *ssa.Builtin) (Value, bool) {
	args := x.Call.Args
	switch b.Name() {
	case "len", "cap":
		a := e.term(fr, st, args[0])
		switch args[0].Type().Underlying().(type) {
		case *types.Slice:
			if b.Name() == "len" {
				return e.def(SInt, App(SInt, "sl-len", a)), true
			}
			return e.def(SInt, App(SInt, "sl-cap", a)), true
		case *types.Basic:
			return e.def(SInt, App(SInt, "slen", a)), true
		case *types.Map:
			return e.def(SInt, e.mapLen(st, a, args[0].Type().Underlying().(*types.Map))), true
		case *types.Array:
			return IntLit(args[0].Type().Underlying().(*types.Array).Len()), true
		case *types.Pointer:
			if arr, ok := args[0].Type().Underlying().(*types.Pointer).Elem().Underlying().(*types.Array); ok {
				return IntLit(arr.Len()), true
			}
		}
		r := e.fresh(SInt, "len")
		e.emit("(assert (<= 0 %s))", r.S)
		return r, true
	case "append":
		return e.doAppend(fr, st, x), true
	case "copy":
		return e.doCopy(fr, st, x), true
	case "delete":
		e.onMapDelete(fr, st, x, args[0], args[1])
		e.mapDelete(fr, st, args[0], args[1])
		return nil, true
	case "clear":
		e.mapClear(fr, st, args[0])
		return nil, true
	case "panic":
		return nil, false
	case "recover":
		return e.havocValue(x.Type(), st.pc, "recovered"), true
	case "print", "println":
		return nil, true
	case "min", "max":
		var acc *Term
		for _, a := range args {
			t := e.term(fr, st, a)
			if acc == nil {
				acc = t
			} else if b.Name() == "min" {
				acc = Ite(Le(acc, t), acc, t)
			} else {
				acc = Ite(Le(acc, t), t, acc)
			}
		}
		return e.def(acc.Sort, acc), true
	case "ssa:wrapnilchk":
		return e.val(fr, args[0]), true
	}
	e.note("builtin %s havocked", b.Name())
	e.newEpoch(st)
	return e.callResult(st, x), true
}

// doAppend models append(s, elems...) exactly: in place when cap allows.
func (e *Exec) doAppend(fr *Frame, st *State, x *ssa.Call) Value {
	args := x.Call.Args
	s := e.term(fr, st, args[0])
	slt, ok := args[0].Type().Underlying().(*types.Slice)
	if !ok {
		return e.havocValue(x.Type(), st.pc, "append")
	}
	et := slt.Elem()
	if _, elemStruct := et.Underlying().(*types.Struct); elemStruct {
		tl := e.fresh(SInt, "applen")
		if isString(args[1].Type()) {
			e.assume(st.pc, Eq(tl, App(SInt, "slen", e.term(fr, st, args[1]))))
		} else {
			e.assume(st.pc, Eq(tl, App(SInt, "sl-len", e.term(fr, st, args[1]))))
		}
		return e.appendAbstract(st, x, s, et, tl, nil, true)
	}
	if isString(args[1].Type()) {
		t := e.term(fr, st, args[1])
		return e.appendAbstract(st, x, s, et, App(SInt, "slen", t), func(h *Term, j string) string {
			return fmt.Sprintf("(sat %s %s)", t.S, j)
		}, false)
	}
	t := e.term(fr, st, args[1])
	toff := App(SInt, "sl-off", t)
	return e.appendAbstract(st, x, s, et, App(SInt, "sl-len", t), func(h *Term, j string) string {
		return fmt.Sprintf("(select (select %s %s) (+ %s %s))", h.S, App(SInt, "sl-id", t).S, toff.S, j)
	}, false)
}

// appendAbstract models append(s, <tl elements>) exactly (in place when the
// capacity allows, else a fresh array); src gives the k-th appended element
// (k from 0) as a term over the heap before the append. nil src: contents unknown.
func (e *Exec) appendAbstract(st *State, x ssa.Instruction, s *Term, et types.Type, tl *Term, src func(h *Term, k string) string, noContents bool) Value {
	es := sortOf(et)
	sid, soff, slen, scap := App(SInt, "sl-id", s), App(SInt, "sl-off", s), App(SInt, "sl-len", s), App(SInt, "sl-cap", s)
	nlen := e.def(SInt, Add(slen, tl))
	inplace := e.def(SBool, Le(nlen, scap))
	fid := e.alloc(st, "app")
	ncap := e.fresh(SInt, "appcap")
	e.assume(st.pc, And(Le(nlen, ncap), Le(ncap, BigLit(pow2(62)))))
	res := Ite(inplace,
		App(SSl, "mk-sl", sid, soff, nlen, scap),
		App(SSl, "mk-sl", fid, IntLit(0), nlen, ncap))
	if noContents {
		return e.def(SSl, res)
	}
	comp := arrComp(et)
	if e.Opt.NoArgWrite && es == SObj {
		// append in place writes into the backing array of s: it must be this activation's own
		var rv ssa.Value
		if v, ok := x.(ssa.Value); ok {
			rv = v
		}
		e.oblige(st, "frame:append", render(rv, 0), Implies(And(inplace, Lt(IntLit(0), tl)), Le(e.heapRead(e.entry, "$alloc", SInt), sid)), e.posOf(x), sid, slen, scap)
	}
	if src == nil {
		st.heap[comp] = sentinel
		return e.def(SSl, res)
	}
	h := e.heapRead(st, comp, ArrSort(ArrSort(es)))
	old := Select(h, sid)
	// new contents as a function of the index j
	inplBody := func(j string) string {
		k := fmt.Sprintf("(- %s (+ %s %s))", j, soff.S, slen.S)
		return fmt.Sprintf("(ite (and (<= (+ %s %s) %s) (< %s (+ %s %s))) %s (select %s %s))",
			soff.S, slen.S, j, j, soff.S, nlen.S, src(h, k), old.S, j)
	}
	freshBody := func(j string) string {
		k := fmt.Sprintf("(- %s %s)", j, slen.S)
		return fmt.Sprintf("(ite (< %s %s) (select %s (+ %s %s)) %s)",
			j, slen.S, old.S, soff.S, j, src(h, k))
	}
	if e.Opt.NoLambda {
		na := e.fresh(ArrSort(es), "apparr")
		j := "j!q"
		e.emit("(assert (=> %s (forall ((%s Int)) (! (= (select %s %s) %s) :pattern ((select %s %s))))))",
			And(st.pc, inplace).S, j, na.S, j, inplBody(j), na.S, j)
		e.emit("(assert (=> %s (forall ((%s Int)) (! (= (select %s %s) %s) :pattern ((select %s %s))))))",
			And(st.pc, Not(inplace)).S, j, na.S, j, freshBody(j), na.S, j)
		st.heap[comp] = e.def(h.Sort, Ite(inplace, Store(h, sid, na), Store(h, fid, na)))
		return e.def(SSl, res)
	}
	newH := Ite(inplace,
		Store(h, sid, &Term{"(lambda ((j Int)) " + inplBody("j") + ")", ArrSort(es)}),
		Store(h, fid, &Term{"(lambda ((j Int)) " + freshBody("j") + ")", ArrSort(es)}))
	st.heap[comp] = e.def(h.Sort, newH)
	return e.def(SSl, res)
}

func (e *Exec) doCopy(fr *Frame, st *State, x *ssa.Call) Value {
	args := x.Call.Args
	d := e.term(fr, st, args[0])
	dlen := App(SInt, "sl-len", d)
	var slen *Term
	if isString(args[1].Type()) {
		slen = App(SInt, "slen", e.term(fr, st, args[1]))
	} else {
		slen = App(SInt, "sl-len", e.term(fr, st, args[1]))
	}
	n := e.def(SInt, Ite(Le(dlen, slen), dlen, slen))
	slt, ok := args[0].Type().Underlying().(*types.Slice)
	if !ok {
		return n
	}
	et := slt.Elem()
	if _, isStruct := et.Underlying().(*types.Struct); isStruct {
		e.note("copy of struct elements: contents havocked")
		return n
	}
	es := sortOf(et)
	comp := arrComp(et)
	if isString(args[1].Type()) {
		st.heap[comp] = sentinel
		return n
	}
	s := e.term(fr, st, args[1])
	if e.Opt.NoArgWrite && es == SObj {
		e.oblige(st, "frame:copy", render(x, 0), Implies(Lt(IntLit(0), n), Le(e.heapRead(e.entry, "$alloc", SInt), App(SInt, "sl-id", d))), e.posOf(x), App(SInt, "sl-id", d))
	}
	h := e.heapRead(st, comp, ArrSort(ArrSort(es)))
	did, doff := App(SInt, "sl-id", d), App(SInt, "sl-off", d)
	old := Select(h, did)
	src := Select(h, App(SInt, "sl-id", s))
	soff := App(SInt, "sl-off", s)
	lam := fmt.Sprintf("(lambda ((j Int)) (ite (and (<= %s j) (< j (+ %s %s))) (select %s (+ %s (- j %s))) (select %s j)))",
		doff.S, doff.S, n.S, src.S, soff.S, doff.S, old.S)
	st.heap[comp] = e.def(h.Sort, Store(h, did, &Term{lam, ArrSort(es)}))
	return n
}

func (e *Exec) runDefers(fr *Frame, st *State) {
	if len(st.defers) == 0 {
		return
	}
	// deferred calls run in reverse order, each only on the paths that registered it
	for i := len(st.defers) - 1; i >= 0; i-- {
		de := st.defers[i]
		if de.d.Parent() != fr.fn {
			continue
		}
		applies := e.def(SBool, And(st.pc, de.guard))
		skips := e.def(SBool, And(st.pc, Not(de.guard)))
		with := st.clone()
		with.pc = applies
		with.defers = nil
		e.runOneDefer(fr, with, de.d)
		without := st.clone()
		without.pc = skips
		m := e.mergeStates([]*State{with, without})
		keep := st.defers
		st.pc, st.heap, st.epoch = m.pc, m.heap, m.epoch
		st.defers = keep
	}
	st.defers = nil
	e.bumpAlloc(st)
}

func (e *Exec) runOneDefer(fr *Frame, st *State, d *ssa.Defer) {
	for _, h := range e.hooks {
		if ok, _ := h.Call(e, fr, st, &d.Call, d); ok {
			return
		}
	}
	// a deferred closure of this function: run its body here (normal exit path)
	if mc, ok := d.Call.Value.(*ssa.MakeClosure); ok {
		if cf, ok := mc.Fn.(*ssa.Function); ok && len(cf.Blocks) > 0 && fr.depth < 4 && cf.Recover == nil {
			nf := &Frame{fn: cf, vals: map[ssa.Value]Value{}, locals: map[*ssa.Alloc]string{}, parent: fr, depth: fr.depth + 1, path: fr.path + "defer>"}
			for i, fv := range cf.FreeVars {
				nf.vals[fv] = e.val(fr, mc.Bindings[i])
			}
			for i, p := range cf.Params {
				nf.vals[p] = e.val(fr, d.Call.Args[i])
			}
			out, _ := e.execFunc(nf, st.clone())
			if out != nil {
				st.pc, st.heap, st.epoch = out.pc, out.heap, out.epoch
			}
			return
		}
	}
	e.argsEscape(fr, st, &d.Call)
	if callee := d.Call.StaticCallee(); callee != nil && inModule(callee) {
		ms := e.P.ModSetOf(callee)
		e.havoc(st, ms)
		// closures write captured locals
		if mc, ok := d.Call.Value.(*ssa.MakeClosure); ok {
			for _, bnd := range mc.Bindings {
				if r := allocRoot(bnd); r != nil {
					if key, ok := fr.localKey(r); ok {
						e.havocLocal(st, key)
					}
				}
			}
		}
	} else {
		e.newEpoch(st)
	}
}

// knownCall: library functions with precise enough built-in models.
func (e *Exec) knownCall(fr *Frame, st *State, x *ssa.Call, callee *ssa.Function) (Value, bool, bool) {
	if callee.Pkg == nil || callee.Pkg.Pkg == nil {
		return nil, true, false
	}
	full := callee.Pkg.Pkg.Path() + "." + callee.Name()
	if callee.Signature.Recv() != nil {
		full = callee.String()
	}
	switch full {
	case "github.com/ohler55/ojg/sen.MustParse", "github.com/ohler55/ojg/sen.MustParseReader", "github.com/ohler55/ojg/sen.Parse",
		"github.com/ohler55/ojg/oj.MustParse", "github.com/ohler55/ojg/oj.MustParseString", "github.com/ohler55/ojg/oj.Parse", "github.com/ohler55/ojg/oj.ParseString":
		// assumed contract of the dependency (listed): the package-level parse functions build a new document
		// on every call - what they return shares nothing with the result of an earlier call
		e.argsEscape(fr, st, &x.Call)
		v := e.havocValue(x.Type(), st.pc, "doc")
		var doc *Term
		switch tv := v.(type) {
		case *Term:
			doc = tv
		case *Tuple:
			if len(tv.Vs) > 0 {
				doc, _ = tv.Vs[0].(*Term)
			}
		}
		if doc != nil && doc.Sort == SObj {
			id := e.alloc(st, "doc")
			e.assume(st.pc, Eq(App(SInt, "o-int", doc), id))
		}
		return v, true, true
	case "strconv.AppendInt", "strconv.AppendUint":
		// assumed contract: b ++ the digits of v in the given base (abstract digit functions ndig/dig)
		b := e.term(fr, st, x.Call.Args[0])
		v := e.term(fr, st, x.Call.Args[1])
		base := e.term(fr, st, x.Call.Args[2])
		e.declDigits()
		n := App(SInt, "ndig", v, base)
		return e.appendAbstract(st, x, b, types.Typ[types.Uint8], n, func(h *Term, k string) string {
			return fmt.Sprintf("(dig %s %s %s)", v.S, base.S, k)
		}, false), true, true
	case "(*math/big.Int).Append":
		// assumed contract: b ++ the digits of the big integer (identified by its reference) in the given base
		recv := e.term(fr, st, x.Call.Args[0])
		b := e.term(fr, st, x.Call.Args[1])
		base := e.term(fr, st, x.Call.Args[2])
		e.declDigits()
		n := App(SInt, "ndigbig", recv, base)
		// shape of the text (assumed): a '-' first exactly for negative values, a digit after it, never a '+'
		bv := e.bigGet(st, recv)
		d0 := App(SInt, "digbig", recv, base, IntLit(0))
		e.assume(st.pc, And(Eq(Eq(d0, IntLit(45)), Lt(bv, IntLit(0))), Not(Eq(d0, IntLit(43))), Implies(Lt(bv, IntLit(0)), Le(IntLit(2), n))))
		return e.appendAbstract(st, x, b, types.Typ[types.Uint8], n, func(h *Term, k string) string {
			return fmt.Sprintf("(digbig %s %s %s)", recv.S, base.S, k)
		}, false), true, true
	case "strings.Contains", "strings.HasPrefix", "strings.HasSuffix", "strings.EqualFold":
		// pure predicates of two strings (value semantics): an uninterpreted function of the two values,
		// available to contract clauses under the same name (contains / hasprefix / hassuffix / equalfold)
		f := "str_" + strings.ToLower(callee.Name())
		if !e.declared[f] {
			e.declared[f] = true
			e.emit("(declare-fun %s (Int Int) Bool)", f)
		}
		return e.def(SBool, App(SBool, f, e.term(fr, st, x.Call.Args[0]), e.term(fr, st, x.Call.Args[1]))), true, true
	case "strings.IndexByte", "strings.LastIndexByte", "strings.IndexRune", "strings.Index", "strings.LastIndex", "strings.IndexAny", "bytes.IndexByte":
		r := e.fresh(SInt, "idx")
		var ln *Term
		if isString(x.Call.Args[0].Type()) {
			ln = App(SInt, "slen", e.term(fr, st, x.Call.Args[0]))
		} else {
			ln = App(SInt, "sl-len", e.term(fr, st, x.Call.Args[0]))
		}
		e.assume(st.pc, And(Le(IntLit(-1), r), Lt(r, ln)))
		if full == "strings.Index" || full == "strings.LastIndex" {
			// r + len(sep) <= len(s)
			e.assume(st.pc, Implies(Le(IntLit(0), r), Le(Add(r, App(SInt, "slen", e.term(fr, st, x.Call.Args[1]))), ln)))
		}
		return r, true, true
	case "strings.ToLower", "strings.ToUpper", "strings.TrimSpace", "strings.Title":
		r := e.fresh(SInt, "str")
		a := e.term(fr, st, x.Call.Args[0])
		if full == "strings.ToLower" || full == "strings.ToUpper" {
			// a pure function of the string value (uninterpreted; tolower / toupper in contract clauses)
			f := "str_" + strings.ToLower(callee.Name())
			if !e.declared[f] {
				e.declared[f] = true
				e.emit("(declare-fun %s (Int) Int)", f)
			}
			r = e.def(SInt, App(SInt, f, a))
		}
		if full == "strings.TrimSpace" {
			e.assume(st.pc, And(Le(IntLit(0), App(SInt, "slen", r)), Le(App(SInt, "slen", r), App(SInt, "slen", a))))
		} else {
			e.assume(st.pc, Le(IntLit(0), App(SInt, "slen", r)))
			// ASCII-only strings keep their length; in general not
			e.assume(st.pc, Eq(Eq(App(SInt, "slen", a), IntLit(0)), Eq(App(SInt, "slen", r), IntLit(0))))
		}
		return r, true, true
	}
	return nil, true, false
}

// InlineClosure returns the functions that may be inlined (transitively, up
// to the inline depth) when the roots are executed.
func InlineClosure(p *Prog, roots []*ssa.Function, opt *Options) map[*ssa.Function]bool {
	e := NewExec(p, opt)
	out := map[*ssa.Function]bool{}
	var walk func(fn *ssa.Function, fr *Frame)
	walk = func(fn *ssa.Function, fr *Frame) {
		for _, b := range fn.Blocks {
			for _, in := range b.Instrs {
				c, ok := in.(*ssa.Call)
				if !ok {
					continue
				}
				callee := c.Call.StaticCallee()
				if callee == nil || p.NoReturn[callee] {
					continue
				}
				if e.canInline(fr, callee) {
					out[callee] = true
					walk(callee, &Frame{fn: callee, parent: fr, depth: fr.depth + 1})
				}
			}
		}
	}
	for _, r := range roots {
		walk(r, &Frame{fn: r})
	}
	return out
}

func sortedKeys(m map[string]bool) []string {
	var ks []string
	for k := range m {
		ks = append(ks, k)
	}
	sort.Strings(ks)
	return ks
}

func sortedBlocks(m map[*ssa.BasicBlock]bool) []*ssa.BasicBlock {
	var bs []*ssa.BasicBlock
	for b := range m {
		bs = append(bs, b)
	}
	sort.Slice(bs, func(i, j int) bool { return bs[i].Index < bs[j].Index })
	return bs
}

func (e *Exec) declDigits() {
	if e.declared["ndig"] {
		return
	}
	e.declared["ndig"] = true
	e.emit("(declare-fun ndig (Int Int) Int)")
	e.emit("(declare-fun dig (Int Int Int) Int)")
	e.emit("(declare-fun ndigbig (Int Int) Int)")
	e.emit("(declare-fun digbig (Int Int Int) Int)")
	e.emit("(assert (forall ((v Int) (b Int)) (! (and (<= 1 (ndig v b)) (<= (ndig v b) 65)) :pattern ((ndig v b)))))")
	e.emit("(assert (forall ((v Int) (b Int)) (! (and (<= 1 (ndigbig v b)) (<= (ndigbig v b) 1000000)) :pattern ((ndigbig v b)))))")
	// shape of the text strconv.AppendInt produces (assumed): a '-' first exactly for negative values,
	// at least one digit after it, never a '+'
	e.emit("(assert (forall ((v Int) (b Int)) (! (and (= (= (dig v b 0) 45) (< v 0)) (not (= (dig v b 0) 43)) (=> (< v 0) (<= 2 (ndig v b)))) :pattern ((ndig v b)))))")


}

func (e *Exec) registerDigitGhosts() {
	mk := func(name string, n int) {
		e.ghostFuncs[name] = func(en *evalEnv, a []ev) ev {
			e.declDigits()
			var ts []*Term
			for i := 0; i < n; i++ {
				ts = append(ts, a[i].v.(*Term))
			}
			return ev{App(SInt, name, ts...), nil}
		}
	}
	mk("ndig", 2)
	mk("dig", 3)
	mk("ndigbig", 2)
	mk("digbig", 3)
}

func calleeName(c *ssa.CallCommon) string {
	if c.Method != nil {
		return c.Method.Name()
	}
	if f := c.StaticCallee(); f != nil {
		return f.Name()
	}
	return ""
}

// onCall checks the contract's on-call assertions.
func (e *Exec) onCall(fr *Frame, st *State, x *ssa.Call) {
	if fr.parent != nil {
		return
	}
	ct := e.contractOf(fr.fn)
	if ct == nil || len(ct.OnCalls) == 0 {
		return
	}
	name := calleeName(&x.Call)
	if name == "" {
		return
	}
	// ordinal of this call among the calls of the same name (block order)
	nth := 0
	for _, b := range fr.fn.Blocks {
		for _, in := range b.Instrs {
			if c2, ok := in.(*ssa.Call); ok && calleeName(&c2.Call) == name {
				nth++
				if c2 == x {
					goto found
				}
			}
		}
	}
found:
	for i, oc := range ct.OnCalls {
		if oc.Callee != name || (oc.Nth != 0 && oc.Nth != nth) {
			continue
		}
		en := e.newEnv(fr, st, e.entry)
		en.point = x
		args := x.Call.Args
		if x.Call.Method == nil && x.Call.StaticCallee() != nil && x.Call.StaticCallee().Signature.Recv() != nil {
			args = args[1:]
		}
		for k, a := range args {
			en.vars[fmt.Sprintf("$arg%d", k)] = ev{e.val(fr, a), a.Type()}
			// provenance: the name of the function whose call produced this argument ("" when it is not the
			// direct result of a static call) - for clauses of the form "what is written was encoded by F"
			from := ""
			if ca, ok := a.(*ssa.Call); ok {
				from = calleeName(&ca.Call)
			}
			en.vars[fmt.Sprintf("$arg%d_from", k)] = ev{e.strConst(from), types.Typ[types.String]}
		}
		lbl := oc.Label
		if lbl == "" {
			lbl = fmt.Sprint(i + 1)
		}
		g, applies := e.tryClause(en, oc.Text, oc.Expr)
		if !applies {
			continue
		}
		e.clauseUsed["call:"+oc.Callee+":"+lbl]++
		e.oblige(st, "on-call", fmt.Sprintf("%s#%d:%s", name, nth, lbl), g, e.posOf(x))
	}
}

// pureMethod: the assumed-pure interface method as an uninterpreted function of the receiver.
func (e *Exec) pureMethod(name, sort string, recv *Term) *Term {
	f := "pm_" + name
	if !e.declared[f] {
		e.declared[f] = true
		e.emit("(declare-fun %s (Obj) %s)", f, sort)
		if sort == SSl {
			e.emit("(assert (forall ((o Obj)) (! (sl-ok (%s o)) :pattern ((%s o)))))", f, f)
		}
	}
	return App(sort, f, recv)
}

// pureFuncName: the uninterpreted function standing for an assumed-pure module function.
func pureFuncName(full string) string { return "pf_" + sanitize(full) }

// pureFuncApp applies the uninterpreted function of an assumed-pure function to argument terms.
func (e *Exec) pureFuncApp(full string, rs string, args []*Term) *Term {
	f := pureFuncName(full)
	if !e.declared[f] {
		e.declared[f] = true
		var ss []string
		for _, a := range args {
			ss = append(ss, a.Sort)
		}
		e.emit("(declare-fun %s (%s) %s)", f, strings.Join(ss, " "), rs)
	}
	if len(args) == 0 {
		return &Term{f, rs}
	}
	return App(rs, f, args...)
}

// pureFuncCall: a static call of an assumed-pure function is its uninterpreted function applied to the arguments.
func (e *Exec) pureFuncCall(fr *Frame, st *State, x *ssa.Call, callee *ssa.Function) (Value, bool) {
	res := callee.Signature.Results()
	if res.Len() != 1 {
		return nil, false
	}
	rs := sortOf(res.At(0).Type())
	if rs != SInt && rs != SBool && rs != SObj {
		return nil, false
	}
	var args []*Term
	for _, a := range x.Call.Args {
		switch sortOf(a.Type()) {
		case SInt, SBool, SObj:
			args = append(args, e.term(fr, st, a))
		default:
			return nil, false
		}
	}
	return e.def(rs, e.pureFuncApp(FuncName(callee), rs, args)), true
}
