package vc

import (
	"go/ast"
	"go/token"
	"strconv"
	"strings"

	"golang.org/x/tools/go/ssa"
)

// Family A: the argument counts a built-in accepts must be the ones its own
// FuncDoc lambda list allows. The contract is generated from the FuncDoc
// literal in the source (documentation-derived contract).

type DocArity struct {
	TypeName string // Go type of the function object ("Car")
	Pkg      string // short package ("cl")
	LispName string
	Min, Max int // Max = -1: unbounded
	File     string
	Args     []string
}

// DocArities scans the Define sites of the loaded module packages.
func (p *Prog) DocArities() []*DocArity {
	var out []*DocArity
	for _, pkg := range p.Pkgs {
		if !strings.HasPrefix(pkg.PkgPath, ModPath) {
			continue
		}
		short := "slip"
		if pkg.PkgPath != ModPath {
			short = strings.TrimPrefix(pkg.PkgPath, ModPath+"/pkg/")
		}
		for _, f := range pkg.Syntax {
			ast.Inspect(f, func(n ast.Node) bool {
				call, ok := n.(*ast.CallExpr)
				if !ok {
					return true
				}
				name := ""
				switch fn := call.Fun.(type) {
				case *ast.SelectorExpr:
					name = fn.Sel.Name
				case *ast.Ident:
					name = fn.Name
				}
				if name != "Define" || len(call.Args) < 2 {
					return true
				}
				creator, ok := call.Args[0].(*ast.FuncLit)
				if !ok {
					return true
				}
				tn := creatorType(creator)
				if tn == "" {
					return true
				}
				doc := docLiteral(call.Args[1])
				if doc == nil {
					return true
				}
				da := &DocArity{TypeName: tn, Pkg: short, File: p.SSA.Fset.Position(call.Pos()).Filename}
				ok = fillDoc(da, doc)
				if ok {
					out = append(out, da)
				}
				return true
			})
		}
	}
	return out
}

// creatorType: the composite literal type assigned in `f := T{...}`.
func creatorType(fl *ast.FuncLit) string {
	tn := ""
	ast.Inspect(fl.Body, func(n ast.Node) bool {
		if tn != "" {
			return false
		}
		cl, ok := n.(*ast.CompositeLit)
		if !ok {
			return true
		}
		if id, ok := cl.Type.(*ast.Ident); ok {
			tn = id.Name
			return false
		}
		return true
	})
	return tn
}

func docLiteral(e ast.Expr) *ast.CompositeLit {
	if u, ok := e.(*ast.UnaryExpr); ok && u.Op == token.AND {
		e = u.X
	}
	cl, ok := e.(*ast.CompositeLit)
	if !ok {
		return nil
	}
	return cl
}

func fillDoc(da *DocArity, doc *ast.CompositeLit) bool {
	hasArgs := false
	for _, el := range doc.Elts {
		kv, ok := el.(*ast.KeyValueExpr)
		if !ok {
			continue
		}
		k, _ := kv.Key.(*ast.Ident)
		if k == nil {
			continue
		}
		switch k.Name {
		case "Name":
			if bl, ok := kv.Value.(*ast.BasicLit); ok {
				da.LispName, _ = strconv.Unquote(bl.Value)
			}
		case "Args":
			hasArgs = true
			cl, ok := kv.Value.(*ast.CompositeLit)
			if !ok {
				return false
			}
			for _, a := range cl.Elts {
				acl, ok := a.(*ast.CompositeLit)
				if !ok {
					if u, ok2 := a.(*ast.UnaryExpr); ok2 {
						acl, ok = u.X.(*ast.CompositeLit)
					}
					if !ok {
						return false
					}
				}
				name := ""
				for _, f := range acl.Elts {
					fkv, ok := f.(*ast.KeyValueExpr)
					if !ok {
						continue
					}
					if id, ok := fkv.Key.(*ast.Ident); ok && id.Name == "Name" {
						if bl, ok := fkv.Value.(*ast.BasicLit); ok {
							name, _ = strconv.Unquote(bl.Value)
						}
					}
				}
				da.Args = append(da.Args, name)
			}
		}
	}
	if da.LispName == "" {
		return false
	}
	_ = hasArgs
	mode := "req"
	da.Min, da.Max = 0, 0
	for _, a := range da.Args {
		switch strings.ToLower(a) {
		case "&optional":
			mode = "opt"
			continue
		case "&rest", "&body":
			mode = "rest"
			da.Max = -1
			continue
		case "&key":
			mode = "key"
			continue
		case "&aux":
			mode = "aux"
			continue
		case "&allow-other-keys":
			da.Max = -1
			continue
		}
		switch mode {
		case "req":
			da.Min++
			if da.Max >= 0 {
				da.Max++
			}
		case "opt":
			if da.Max >= 0 {
				da.Max++
			}
		case "key":
			if da.Max >= 0 {
				da.Max += 2
			}
		}
	}
	return true
}

// ArityHook records, at every call of slip.CheckArgCount reached from the
// function under contract, the obligation (mn, mx) == (docMin, docMax).
type ArityHook struct {
	Doc *DocArity
}

func (h *ArityHook) Call(e *Exec, fr *Frame, st *State, c *ssa.CallCommon, instr ssa.Instruction) (bool, Value) {
	callee := c.StaticCallee()
	if callee == nil || callee.Name() != "CheckArgCount" || len(c.Args) != 6 {
		return false, nil
	}
	mn := e.term(fr, st, c.Args[4])
	mx := e.term(fr, st, c.Args[5])
	// the guard must look at the function's own argument list
	argsV, ok := e.val(fr, c.Args[3]).(*Term)
	root := e.rootArgs
	sameArgs := True
	if ok && root != nil {
		sameArgs = Eq(App(SInt, "sl-len", argsV), App(SInt, "sl-len", root))
	}
	wantMax := IntLit(int64(h.Doc.Max))
	var maxOK *Term
	if h.Doc.Max < 0 {
		maxOK = Lt(mx, IntLit(0))
	} else {
		maxOK = Eq(mx, wantMax)
	}
	e.oblige(st, "arity", "min", And(sameArgs, Eq(mn, IntLit(int64(h.Doc.Min)))), e.posOf(instr), mn)
	e.oblige(st, "arity", "max", And(sameArgs, maxOK), e.posOf(instr), mx)
	st.heap["L$arity"] = True
	return false, nil
}

// ArityReturnHook: every normal return must have passed an arity guard
// (unless the documentation allows every count).
func ArityReturnHook(doc *DocArity) func(e *Exec, fr *Frame, st *State, res []Value) {
	return func(e *Exec, fr *Frame, st *State, res []Value) {
		if doc.Min == 0 && doc.Max < 0 {
			return
		}
		g, ok := st.heap["L$arity"]
		if !ok || g == nil || g.S == "" {
			g = False
		}
		e.oblige(st, "arity", "guard-before-return", g, "")
	}
}

// VerifyArity runs the arity contract of one built-in.
func VerifyArity(p *Prog, fn *ssa.Function, doc *DocArity, so *SolveOpts) *FuncResult {
	opt := Options{Safety: false, InlineDepth: 3, InlineSize: 700, NoCands: true, InlineLoops: true}
	opt.Setup = func(e *Exec) {
		e.hooks = append(e.hooks, &ArityHook{Doc: doc})
		e.retHooks = append(e.retHooks, ArityReturnHook(doc))
		e.InitHeap = map[string]*Term{"L$arity": False}
	}
	return VerifyFunc(p, fn, opt, so)
}
