package vc

import (
	"fmt"
	"go/types"
	"sort"
	"strings"

	"golang.org/x/tools/go/ssa"
)

// Obligation is one proof goal: under the script prefix lines[:At], pc => Goal.
type Obligation struct {
	Name   string
	Kind   string // safe:index, safe:slice, safe:assert, safe:div, safe:nilmap, safe:hashkey, post, inv-init, inv-keep, pre, exact, ...
	Fn     string
	Owner  string // <function that contains the instruction>/<local name>
	At     int    // number of script lines that precede the goal
	Goal   string // full formula (pc => goal)
	Cand   string // Houdini candidate this obligation belongs to ("" if none)
	Pos    string // source position (informational only, never part of the name)
	Status string // discharged | failed | unknown
	Solver string
	Secs   float64
	Model  string
	Info   map[string]string // extra: rendered model terms to ask for
	Ask    []string          // terms whose values are requested with get-value
	Trivial bool
}

type State struct {
	pc     *Term
	heap   map[string]*Term
	epoch  int
	defers []deferEntry // deferred calls registered on the paths that reach this state
}

type deferEntry struct {
	d     *ssa.Defer
	guard *Term // path condition under which the defer statement was executed
}

func (s *State) clone() *State {
	h := make(map[string]*Term, len(s.heap))
	for k, v := range s.heap {
		h[k] = v
	}
	return &State{pc: s.pc, heap: h, epoch: s.epoch, defers: append([]deferEntry{}, s.defers...)}
}

type Frame struct {
	fn     *ssa.Function
	vals   map[ssa.Value]Value
	path   string
	depth  int
	locals map[*ssa.Alloc]string // non-heap Alloc -> key prefix
	parent *Frame
	defers []*ssa.Defer
	loops  map[*ssa.BasicBlock]*loopInfo
	loopN  int
	esc    map[string]bool
	inlCount map[*ssa.Function]int
	exact  map[ssa.Value]*Term
}

// Options select what the executor generates.
type Options struct {
	Safety      bool            // family S obligations
	Exact       bool            // family I: integer ops on Exact types must not wrap
	ExactCompare bool           // family I in predicates: every signed 64-bit chain is tracked and comparisons are uses
	OperandsKept bool           // family O: math/big values that existed at entry are never the target of a mutating method
	InlineDepth int             // max inline depth
	InlineSize  int             // max instruction count of an inlined callee
	Disabled    map[string]bool // Houdini candidates that were dropped
	Contracts   *Contracts
	NoCands     bool
	InlineLoops bool
	NoLambda    bool
	SkipProven  map[string]bool // owner/local names proved standalone: skipped when inlined
	RootSafetyOnly bool         // no safety obligations inside inlined frames
	Setup func(e *Exec)         // installs hooks / ghost state before a run
	NoArgWrite bool             // family M: no store into an Object array that existed at entry
	ResultIndependent string    // family M: "" | "fresh" | "fresh-or-tail"
}

type Exec struct {
	P        *Prog
	Opt      *Options
	lines    []string
	n        int
	Obls     []*Obligation
	strs     map[string]*Term
	strOrder []string
	floats   map[string]*Term
	declared map[string]bool
	anchorN  map[string]int
	Root     *ssa.Function
	Notes    []string // abstractions taken (out-of-subset features etc.)
	epochN   int
	localN   int
	Cands    []string // candidate invariant names seen in this run
	entry    *State
	hooks    []Hook
	inlining []*ssa.Function
	globalSeen map[string]bool
	impls    []implDecl
	hashDecl bool
	hashDone int
	inlineN  int
	usedTags map[int]bool
	tagOrder []int
	curFr    *Frame
	curIn    ssa.Instruction
	seenName map[string]int
	Skipped  int
	ghostFuncs map[string]func(en *evalEnv, args []ev) ev
	retHooks []func(e *Exec, fr *Frame, st *State, res []Value)
	usedLoopKeys map[string]bool
	pendingExact *Term
	InitHeap map[string]*Term
	rootArgs *Term
	retN     int
	retN2    int
	presSorts map[string]string
	retN3      int
	returnsSeen int
	epochComps map[int]map[string]string
	epochParents map[int][]epochParent // a join of different havoc histories: which epoch each joined path was in
	noStoreHit map[string]bool
	confineHit map[string]bool
	aoB0, aoH0 *Term // append-only: the buffer parameter at entry and the byte arrays at entry
	aoAssumed  int
	stablePrev map[int]int // epoch -> the epoch it replaced (fields of stable structs carry over)
	clauseUsed map[string]int
	ghostOn  bool
}

// Hook lets a family observe calls (ghost state).
type Hook interface {
	// Call is invoked for every call instruction before default handling; it
	// returns handled=true with the result value when it models the call.
	Call(e *Exec, fr *Frame, st *State, c *ssa.CallCommon, instr ssa.Instruction) (handled bool, res Value)
}

func NewExec(p *Prog, opt *Options) *Exec {
	e := &Exec{P: p, Opt: opt, strs: map[string]*Term{}, floats: map[string]*Term{}, declared: map[string]bool{}, anchorN: map[string]int{}, seenName: map[string]int{}, ghostFuncs: map[string]func(en *evalEnv, args []ev) ev{}, usedLoopKeys: map[string]bool{}, noStoreHit: map[string]bool{}, confineHit: map[string]bool{}, clauseUsed: map[string]int{}}
	e.registerDigitGhosts()
	return e
}

func (e *Exec) emit(f string, a ...any) { e.lines = append(e.lines, fmt.Sprintf(f, a...)) }

func (e *Exec) name(hint string) string {
	e.n++
	return fmt.Sprintf("%s!%d", sanitize(hint), e.n)
}

func (e *Exec) fresh(sort, hint string) *Term {
	n := e.name(hint)
	e.emit("(declare-const %s %s)", n, sort)
	return &Term{n, sort}
}

func (e *Exec) def(sort string, t *Term) *Term {
	if len(t.S) < 24 && !strings.Contains(t.S, " ") {
		return t
	}
	n := e.name("v")
	e.emit("(define-fun %s () %s %s)", n, sort, t.S)
	return &Term{n, sort}
}

func (e *Exec) assume(pc *Term, fact *Term) {
	if fact == nil || fact.S == "true" {
		return
	}
	e.emit("(assert %s)", Implies(pc, fact).S)
}

func (e *Exec) note(f string, a ...any) {
	s := fmt.Sprintf(f, a...)
	for _, n := range e.Notes {
		if n == s {
			return
		}
	}
	e.Notes = append(e.Notes, s)
}

// oblige records a proof obligation. Names are
// <root>/[via <call path>/]<kind>@<anchor>[#n] where n is the static ordinal
// of the instruction among the instructions of its own function that have
// the same kind@anchor (never a line number).
func (e *Exec) oblige(st *State, kind, anchor string, goal *Term, pos string, ask ...*Term) *Obligation {
	trivial := goal.S == "true" || st.pc.S == "false"
	fn := FuncName(e.Root)
	base := kind
	if anchor != "" {
		base += "@" + anchor
	}
	local := base
	via := ""
	owner := fn
	if e.curIn != nil && e.curFr != nil && (strings.HasPrefix(kind, "safe:") || strings.HasPrefix(kind, "exact:") || strings.HasPrefix(kind, "fresh-recv") || strings.HasPrefix(kind, "operand-kept") || strings.HasPrefix(kind, "frame:")) {
		if n := e.P.staticOrdinal(e.curFr.fn, e.curIn, base); n > 1 {
			local += fmt.Sprintf("#%d", n)
		}
		if e.curFr.parent != nil {
			via = "via " + strings.TrimSuffix(e.curFr.path, ">") + "/"
			owner = FuncName(e.curFr.fn)
			if e.Opt.SkipProven != nil && e.Opt.SkipProven[owner+"/"+local] {
				e.Skipped++
				return nil
			}
			if e.Opt.RootSafetyOnly {
				return nil
			}
		}
	} else if kind == "on-store" && e.curIn != nil && e.curFr != nil {
		if n := e.P.staticOrdinal(e.curFr.fn, e.curIn, "store:"+strings.SplitN(strings.SplitN(strings.SplitN(anchor, ":", 2)[0], "=", 2)[0], "#", 2)[0]); n > 1 && !strings.Contains(strings.SplitN(anchor, ":", 2)[0], "#") {
			local += fmt.Sprintf("#%d", n)
		}
	} else {
		e.anchorN[base]++
		if n := e.anchorN[base]; n > 1 {
			local += fmt.Sprintf("#%d", n)
		}
	}
	if !trivial {
		e.flushImplFacts()
		e.flushHashFacts()
	}
	name := fn + "/" + via + local
	if e.seenName[name] > 0 {
		// same instruction reached twice (should not happen): disambiguate
		name += fmt.Sprintf("~%d", e.seenName[name]+1)
	}
	e.seenName[name]++
	o := &Obligation{Name: name, Kind: kind, Fn: fn, Owner: owner + "/" + local, At: len(e.lines), Goal: Implies(st.pc, goal).S, Pos: pos}
	for _, a := range ask {
		if a != nil {
			o.Ask = append(o.Ask, a.S)
		}
	}
	if trivial {
		// decided by term simplification (constant folding) while generating the VC
		o.Status = "discharged"
		o.Solver = "simplifier"
		o.Trivial = true
	}
	e.Obls = append(e.Obls, o)
	return o
}

// ---------------------------------------------------------------------------
// heap access


var _ = sort.Strings

func (e *Exec) heapGet(st *State, comp, sort string) *Term {
	if t, ok := st.heap[comp]; ok && t != nil && t.S != "" {
		return t
	}
	return e.epochDefault(comp, st.epoch, sort)
}

// epochDefault: the value a component has in a havoc epoch before anything wrote it. An epoch created by
// joining paths with different havoc histories takes, on each path, the value of that path's epoch.
func (e *Exec) epochDefault(comp string, epoch int, sort string) *Term {
	if prev, ok := e.stablePrev[epoch]; ok && e.isStableComp(comp) {
		// a field of a stable struct that was not in use when the epoch began keeps the value it had before
		return e.epochDefault(comp, prev, sort)
	}
	n := fmt.Sprintf("%s!e%d", comp, epoch)
	if !e.declared[n] {
		e.declared[n] = true
		if ps := e.epochParents[epoch]; len(ps) > 0 {
			m := e.epochDefault(comp, ps[len(ps)-1].epoch, sort)
			for i := len(ps) - 2; i >= 0; i-- {
				m = Ite(ps[i].pc, e.epochDefault(comp, ps[i].epoch, sort), m)
			}
			e.emit("(define-fun %s () %s %s)", n, sort, m.S)
		} else {
			e.emit("(declare-const %s %s)", n, sort)
		}
		if e.epochComps == nil {
			e.epochComps = map[int]map[string]string{}
		}
		if e.epochComps[epoch] == nil {
			e.epochComps[epoch] = map[string]string{}
		}
		e.epochComps[epoch][comp] = sort
	}
	return &Term{n, sort}
}

type epochParent struct {
	pc    *Term
	epoch int
}

var sentinel = &Term{S: "", Sort: ""}

// isStableComp: the component is a field of a struct declared stable in the contract corpus.
func (e *Exec) isStableComp(comp string) bool {
	if e.Opt.Contracts == nil {
		return false
	}
	if strings.HasPrefix(comp, "A_") && e.Root != nil {
		// option callbacks-keep-arrays (assumed, listed): the functions handed in as :key / :test do not modify
		// any list or vector, so the contents of backing arrays survive the dynamic calls of this function
		if c := e.Opt.Contracts.ByFunc[FuncName(e.Root)]; c != nil && c.Options["callbacks-keep-arrays"] {
			return true
		}
	}
	for _, ss := range e.Opt.Contracts.StableStructs {
		if strings.HasPrefix(comp, "F_"+sanitize(ss)+"_") {
			return true
		}
	}
	return false
}

// newEpoch forgets every heap component except local (L*) leaves.
func (e *Exec) newEpoch(st *State) {
	old := e.heapRead(st, "$alloc", SInt)
	e.epochN++
	keep := map[string]*Term{}
	if e.Opt.Contracts != nil && e.isStableComp("A_") {
		for k, t := range st.heap {
			if strings.HasPrefix(k, "A_") && t != nil && t.S != "" {
				keep[k] = t
			}
		}
		for comp, srt := range e.epochComps[st.epoch] {
			if strings.HasPrefix(comp, "A_") {
				if _, ok := st.heap[comp]; !ok {
					keep[comp] = &Term{fmt.Sprintf("%s!e%d", comp, st.epoch), srt}
				}
			}
		}
	}
	if e.Opt.Contracts != nil {
		for _, ss := range e.Opt.Contracts.StableStructs {
			pre := "F_" + sanitize(ss) + "_"
			for k, t := range st.heap {
				if strings.HasPrefix(k, pre) && t != nil && t.S != "" {
					keep[k] = t
				}
			}
			for comp, srt := range e.epochComps[st.epoch] {
				if strings.HasPrefix(comp, pre) {
					if _, ok := st.heap[comp]; !ok {
						keep[comp] = &Term{fmt.Sprintf("%s!e%d", comp, st.epoch), srt}
					}
				}
			}
		}
	}
	for k := range st.heap {
		if !strings.HasPrefix(k, "L") {
			delete(st.heap, k)
		}
	}
	for k, t := range keep {
		st.heap[k] = t
	}
	if e.stablePrev == nil {
		e.stablePrev = map[int]int{}
	}
	e.stablePrev[e.epochN] = st.epoch
	st.epoch = e.epochN
	na := e.fresh(SInt, "alloc")
	e.emit("(assert (<= %s %s))", old.S, na.S)
	st.heap["$alloc"] = na
}

// havoc applies a modification set to a state.
func (e *Exec) havoc(st *State, m *ModSet) {
	if m.All {
		e.newEpoch(st)
		// fields of stable structs are kept by newEpoch (unreachable from Lisp code and dynamic calls), but not
		// those that the callee, or a function it calls statically, stores to itself
		var cs []string
		for c := range m.Comps {
			if _, kept := st.heap[c]; kept && strings.HasPrefix(c, "F_") {
				cs = append(cs, c)
			}
		}
		sort.Strings(cs)
		for _, c := range cs {
			st.heap[c] = sentinel
		}
		return
	}
	for c := range m.Comps {
		if c == "$maps" {
			continue
		}
		st.heap[c] = sentinel // order irrelevant: no names are created here
	}
}

// heapRead returns the current version of a component, materialising a fresh
// one if it was havocked since its last read.
func (e *Exec) heapRead(st *State, comp, sort string) *Term {
	if t, ok := st.heap[comp]; ok && t != nil && t.S == "" {
		nt := e.fresh(sort, comp)
		st.heap[comp] = nt
		return nt
	}
	return e.heapGet(st, comp, sort)
}

func (e *Exec) alloc(st *State, hint string) *Term {
	a := e.heapRead(st, "$alloc", SInt)
	r := e.def(SInt, a)
	st.heap["$alloc"] = e.def(SInt, Add(a, IntLit(1)))
	_ = hint
	return r
}

// load reads through an address value.
// arrayElem: element type of an array type whose values are modelled by copying rows (no struct elements).
func arrayElem(t types.Type) (types.Type, bool) {
	at, ok := t.Underlying().(*types.Array)
	if !ok {
		return nil, false
	}
	if _, isStruct := at.Elem().Underlying().(*types.Struct); isStruct {
		return nil, false
	}
	if sortOf(at.Elem()) == structSort || sortOf(at.Elem()) == tupleSort {
		return nil, false
	}
	return at.Elem(), true
}

// rowOf: the row (backing array id) an address of an array variable denotes.
func (e *Exec) rowOf(st *State, addr Value) *Term {
	switch a := addr.(type) {
	case *Term:
		if a.Sort == SInt {
			return a
		}
	case *Loc:
		return e.locAsTerm(st, a)
	}
	return nil
}

// copyRow: dst's row takes the contents of src's row (array values have value semantics).
func (e *Exec) copyRow(st *State, et types.Type, dst, src *Term) {
	s := sortOf(et)
	comp := arrComp(et)
	h := e.heapRead(st, comp, ArrSort(ArrSort(s)))
	st.heap[comp] = e.def(h.Sort, Store(h, dst, Select(h, src)))
}

func (e *Exec) load(fr *Frame, st *State, addr Value, t types.Type) Value {
	if et, ok := arrayElem(t); ok {
		// an array value is a snapshot: a new row with the contents the variable has now
		if src := e.rowOf(st, addr); src != nil {
			snap := e.alloc(st, "arrval")
			e.copyRow(st, et, snap, src)
			return snap
		}
	}
	switch a := addr.(type) {
	case *Loc:
		return e.loadLoc(st, a, t)
	case *Term:
		// pointer of unknown origin
		if _, ok := t.Underlying().(*types.Struct); ok {
			return e.loadStruct(st, a, t)
		}
		s := sortOf(t)
		comp := "P_" + sortKey(s)
		h := e.heapRead(st, comp, ArrSort(s))
		v := e.def(s, Select(h, a))
		e.assumeLoaded(st, t, v)
		return v
	}
	return e.havocValue(t, st.pc, "load")
}

func (e *Exec) assumeLoaded(st *State, t types.Type, v *Term) {
	if a := typeAssume(t, v); a != nil {
		e.assume(st.pc, a)
	}
	// references loaded from the heap were allocated before now
	switch t.Underlying().(type) {
	case *types.Pointer, *types.Map, *types.Chan:
		e.assume(st.pc, Lt(v, e.heapRead(st, "$alloc", SInt)))
	case *types.Slice:
		e.assume(st.pc, Lt(App(SInt, "sl-id", v), e.heapRead(st, "$alloc", SInt)))
	}
}

func (e *Exec) loadStruct(st *State, ref *Term, t types.Type) Value {
	stt := t.Underlying().(*types.Struct)
	sv := &StructVal{T: t}
	name := structName(t)
	for i := 0; i < stt.NumFields(); i++ {
		ft := stt.Field(i).Type()
		if _, ok := ft.Underlying().(*types.Struct); ok {
			sv.Fs = append(sv.Fs, e.loadStruct(st, e.embRef(name, i, ref), ft))
			continue
		}
		s := sortOf(ft)
		h := e.heapRead(st, fieldComp(name, i), ArrSort(s))
		v := e.def(s, Select(h, ref))
		e.assumeLoaded(st, ft, v)
		sv.Fs = append(sv.Fs, v)
	}
	return sv
}

func (e *Exec) storeStruct(st *State, ref *Term, t types.Type, v Value) {
	stt := t.Underlying().(*types.Struct)
	name := structName(t)
	sv, _ := v.(*StructVal)
	for i := 0; i < stt.NumFields(); i++ {
		ft := stt.Field(i).Type()
		var fv Value
		if sv != nil && i < len(sv.Fs) {
			fv = sv.Fs[i]
		} else {
			fv = e.havocValue(ft, st.pc, "sf")
		}
		if _, ok := ft.Underlying().(*types.Struct); ok {
			e.storeStruct(st, e.embRef(name, i, ref), ft, fv)
			continue
		}
		s := sortOf(ft)
		comp := fieldComp(name, i)
		h := e.heapRead(st, comp, ArrSort(s))
		st.heap[comp] = e.def(h.Sort, Store(h, ref, e.asTerm(st, fv, ft)))
	}
}

func (e *Exec) embRef(structName string, field int, ref *Term) *Term {
	f := fmt.Sprintf("emb_%s_%d", structName, field)
	if !e.declared[f] {
		e.declared[f] = true
		e.emit("(declare-fun %s (Int) Int)", f)
	}
	return App(SInt, f, ref)
}

func (e *Exec) elemRef(id, idx *Term) *Term {
	if !e.declared["elemref"] {
		e.declared["elemref"] = true
		e.emit("(declare-fun elemref (Int Int) Int)")
	}
	return App(SInt, "elemref", id, idx)
}

func (e *Exec) loadLoc(st *State, a *Loc, t types.Type) Value {
	switch a.Kind {
	case LField, LCell:
		s := sortOf(t)
		h := e.heapRead(st, a.Comp, ArrSort(s))
		v := e.def(s, Select(h, a.Ref))
		e.assumeLoaded(st, t, v)
		return v
	case LElem:
		s := sortOf(t)
		h := e.heapRead(st, a.Comp, ArrSort(ArrSort(s)))
		v := e.def(s, Select(Select(h, a.Ref), a.Idx))
		e.assumeLoaded(st, t, v)
		return v
	case LGlobal:
		if stt, ok := t.Underlying().(*types.Struct); ok {
			sv := &StructVal{T: t}
			for i := 0; i < stt.NumFields(); i++ {
				sv.Fs = append(sv.Fs, e.loadLoc(st, &Loc{Kind: LGlobal, Comp: fmt.Sprintf("%s.%d", a.Comp, i)}, stt.Field(i).Type()))
			}
			return sv
		}
		s := sortOf(t)
		v := e.heapRead(st, a.Comp, s)
		if e.globalSeen == nil {
			e.globalSeen = map[string]bool{}
		}
		if !e.globalSeen[v.S] {
			e.globalSeen[v.S] = true
			e.assumeLoaded(st, t, v)
		}
		return v
	case LLocal:
		if stt, ok := t.Underlying().(*types.Struct); ok {
			sv := &StructVal{T: t}
			for i := 0; i < stt.NumFields(); i++ {
				sv.Fs = append(sv.Fs, e.loadLoc(st, &Loc{Kind: LLocal, Key: fmt.Sprintf("%s.%d", a.Key, i)}, stt.Field(i).Type()))
			}
			return sv
		}
		if v, ok := st.heap[a.Key]; ok && v != nil && v.S != "" {
			return v
		}
		v := e.havocValue(t, st.pc, "local")
		if tv, ok := v.(*Term); ok {
			st.heap[a.Key] = tv
		}
		return v
	}
	return e.havocValue(t, st.pc, "load")
}

func (e *Exec) asTerm(st *State, v Value, t types.Type) *Term {
	switch x := v.(type) {
	case *Term:
		return x
	case *Loc:
		return e.locAsTerm(st, x)
	}
	// struct / tuple stored where a term is needed: opaque
	return e.fresh(sortOrInt(sortOf(t)), "opaque")
}

func sortOrInt(s string) string {
	if s == structSort || s == tupleSort {
		return SInt
	}
	return s
}

// locAsTerm turns an address into an integer pointer value (it escapes).
func (e *Exec) locAsTerm(st *State, a *Loc) *Term {
	switch a.Kind {
	case LField:
		f := "fa_" + a.Comp
		if !e.declared[f] {
			e.declared[f] = true
			e.emit("(declare-fun %s (Int) Int)", f)
		}
		return App(SInt, f, a.Ref)
	case LElem:
		return e.elemRef(a.Ref, a.Idx)
	case LCell:
		return a.Ref
	case LLocal:
		k := "addr_" + sanitize(a.Key)
		if !e.declared[k] {
			e.declared[k] = true
			e.emit("(declare-const %s Int)", k)
			e.emit("(assert (< 0 %s))", k)
		}
		return &Term{k, SInt}
	case LGlobal:
		k := "addr_" + sanitize(a.Comp)
		if !e.declared[k] {
			e.declared[k] = true
			e.emit("(declare-const %s Int)", k)
			e.emit("(assert (< 0 %s))", k)
		}
		return &Term{k, SInt}
	}
	return e.fresh(SInt, "addr")
}

func (e *Exec) store(fr *Frame, st *State, addr Value, v Value, t types.Type) {
	if et, ok := arrayElem(t); ok {
		if dst := e.rowOf(st, addr); dst != nil {
			if src, ok := v.(*Term); ok && src.Sort == SInt {
				e.copyRow(st, et, dst, src)
				return
			}
		}
	}
	switch a := addr.(type) {
	case *Loc:
		e.storeLoc(st, a, v, t)
		return
	case *Term:
		if _, ok := t.Underlying().(*types.Struct); ok {
			e.storeStruct(st, a, t, v)
			return
		}
		s := sortOf(t)
		comp := "P_" + sortKey(s)
		h := e.heapRead(st, comp, ArrSort(s))
		st.heap[comp] = e.def(h.Sort, Store(h, a, e.asTerm(st, v, t)))
		return
	}
	e.note("store through unsupported address: heap havocked")
	e.newEpoch(st)
}

func (e *Exec) storeLoc(st *State, a *Loc, v Value, t types.Type) {
	switch a.Kind {
	case LField, LCell:
		s := sortOf(t)
		h := e.heapRead(st, a.Comp, ArrSort(s))
		st.heap[a.Comp] = e.def(h.Sort, Store(h, a.Ref, e.asTerm(st, v, t)))
	case LElem:
		s := sortOf(t)
		if e.Opt.NoArgWrite && s == SObj && e.curIn != nil {
			e.oblige(st, "frame:store", render(e.storeAddr(e.curIn), 0), Le(e.heapRead(e.entry, "$alloc", SInt), a.Ref), e.posOf(e.curIn), a.Ref)
		}
		h := e.heapRead(st, a.Comp, ArrSort(ArrSort(s)))
		inner := Store(Select(h, a.Ref), a.Idx, e.asTerm(st, v, t))
		st.heap[a.Comp] = e.def(h.Sort, Store(h, a.Ref, inner))
	case LGlobal:
		if stt, ok := t.Underlying().(*types.Struct); ok {
			sv, _ := v.(*StructVal)
			for i := 0; i < stt.NumFields(); i++ {
				var fv Value
				if sv != nil {
					fv = sv.Fs[i]
				} else {
					fv = e.havocValue(stt.Field(i).Type(), st.pc, "gf")
				}
				e.storeLoc(st, &Loc{Kind: LGlobal, Comp: fmt.Sprintf("%s.%d", a.Comp, i)}, fv, stt.Field(i).Type())
			}
			return
		}
		st.heap[a.Comp] = e.asTerm(st, v, t)
	case LLocal:
		if stt, ok := t.Underlying().(*types.Struct); ok {
			sv, _ := v.(*StructVal)
			for i := 0; i < stt.NumFields(); i++ {
				var fv Value
				if sv != nil {
					fv = sv.Fs[i]
				} else {
					fv = e.havocValue(stt.Field(i).Type(), st.pc, "lf")
				}
				e.storeLoc(st, &Loc{Kind: LLocal, Key: fmt.Sprintf("%s.%d", a.Key, i)}, fv, stt.Field(i).Type())
			}
			return
		}
		st.heap[a.Key] = e.asTerm(st, v, t)
	}
}

// havocValue returns an unconstrained value of type t (typed assumptions only).
func (e *Exec) havocValue(t types.Type, pc *Term, hint string) Value {
	switch u := t.Underlying().(type) {
	case *types.Struct:
		sv := &StructVal{T: t}
		for i := 0; i < u.NumFields(); i++ {
			sv.Fs = append(sv.Fs, e.havocValue(u.Field(i).Type(), pc, hint))
		}
		return sv
	case *types.Tuple:
		tv := &Tuple{}
		for i := 0; i < u.Len(); i++ {
			tv.Vs = append(tv.Vs, e.havocValue(u.At(i).Type(), pc, hint))
		}
		return tv
	}
	v := e.fresh(sortOf(t), hint)
	if a := typeAssume(t, v); a != nil {
		e.emit("(assert %s)", a.S)
	}
	return v
}

// havocLocal forgets the leaves of a local variable (its address escaped to
// code that may write it).
func (e *Exec) havocLocal(st *State, key string) {
	var ks []string
	for k := range st.heap {
		if k == key || strings.HasPrefix(k, key+".") {
			ks = append(ks, k)
		}
	}
	sort.Strings(ks)
	for _, k := range ks {
		if v := st.heap[k]; v != nil && v.S != "" {
			st.heap[k] = e.fresh(v.Sort, "lh")
		}
	}
}

// iteValue merges two values under a condition.
func (e *Exec) iteValue(c *Term, a, b Value) Value {
	switch x := a.(type) {
	case *Term:
		y, ok := b.(*Term)
		if !ok || x.Sort != y.Sort {
			return a
		}
		return Ite(c, x, y)
	case *Tuple:
		y, ok := b.(*Tuple)
		if !ok || len(y.Vs) != len(x.Vs) {
			return a
		}
		r := &Tuple{}
		for i := range x.Vs {
			r.Vs = append(r.Vs, e.iteValue(c, x.Vs[i], y.Vs[i]))
		}
		return r
	case *StructVal:
		y, ok := b.(*StructVal)
		if !ok || len(y.Fs) != len(x.Fs) {
			return a
		}
		r := &StructVal{T: x.T}
		for i := range x.Fs {
			r.Fs = append(r.Fs, e.iteValue(c, x.Fs[i], y.Fs[i]))
		}
		return r
	case *Loc:
		y, ok := b.(*Loc)
		if ok && x.Kind == y.Kind && x.Comp == y.Comp && x.Key == y.Key {
			r := *x
			if x.Ref != nil && y.Ref != nil {
				r.Ref = Ite(c, x.Ref, y.Ref)
			}
			if x.Idx != nil && y.Idx != nil {
				r.Idx = Ite(c, x.Idx, y.Idx)
			}
			return &r
		}
		return a // imprecise; noted by caller
	}
	return a
}

func (e *Exec) nameValue(v Value) Value {
	switch x := v.(type) {
	case *Term:
		return e.def(x.Sort, x)
	case *Tuple:
		r := &Tuple{}
		for _, f := range x.Vs {
			r.Vs = append(r.Vs, e.nameValue(f))
		}
		return r
	case *StructVal:
		r := &StructVal{T: x.T}
		for _, f := range x.Fs {
			r.Fs = append(r.Fs, e.nameValue(f))
		}
		return r
	}
	return v
}

// mergeStates joins edge states.
func (e *Exec) mergeStates(ins []*State) *State {
	if len(ins) == 1 {
		return ins[0].clone()
	}
	var pcs []*Term
	for _, s := range ins {
		pcs = append(pcs, s.pc)
	}
	out := &State{pc: e.def(SBool, Or(pcs...)), heap: map[string]*Term{}}
	for _, s := range ins {
		for _, de := range s.defers {
			dup := false
			for _, o := range out.defers {
				if o.d == de.d {
					dup = true
				}
			}
			if !dup {
				out.defers = append(out.defers, de)
			}
		}
	}
	same := true
	for _, s := range ins[1:] {
		if s.epoch != ins[0].epoch {
			same = false
		}
	}
	if same {
		out.epoch = ins[0].epoch
	} else {
		// different havoc histories: components not mentioned are unknown
		e.epochN++
		out.epoch = e.epochN
		if e.epochParents == nil {
			e.epochParents = map[int][]epochParent{}
		}
		for _, s := range ins {
			e.epochParents[out.epoch] = append(e.epochParents[out.epoch], epochParent{s.pc, s.epoch})
		}
	}
	keys := map[string]bool{}
	for _, s := range ins {
		for k := range s.heap {
			keys[k] = true
		}
	}
	if !same {
		// components that were read through an epoch default in one of the joined histories keep their
		// value on that path: make them explicit so that the join is an ite, not a forgotten value
		for _, s := range ins {
			for comp, srt := range e.epochComps[s.epoch] {
				if _, ok := s.heap[comp]; !ok {
					s.heap[comp] = &Term{fmt.Sprintf("%s!e%d", comp, s.epoch), srt}
				}
				keys[comp] = true
			}
		}
	}
	var ks []string
	for k := range keys {
		ks = append(ks, k)
	}
	sort.Strings(ks)
	for _, k := range ks {
		var ts []*Term
		ok := true
		for _, s := range ins {
			t, has := s.heap[k]
			if has && (t == nil || t.S == "") {
				// forgotten on this path and not read since: name the unknown value if another path knows the
				// component, so that the join keeps what the other paths know
				srt := ""
				for _, s2 := range ins {
					if t2, ok2 := s2.heap[k]; ok2 && t2 != nil && t2.S != "" {
						srt = t2.Sort
					}
				}
				if srt == "" {
					ok = false
					break
				}
				t = e.fresh(srt, k)
				s.heap[k] = t
			}
			if !has {
				if strings.HasPrefix(k, "L") {
					ok = false
					break
				}
				if !same {
					// need the sort: find from another state
					srt := ""
					for _, s2 := range ins {
						if t2, ok2 := s2.heap[k]; ok2 && t2 != nil && t2.S != "" {
							srt = t2.Sort
						}
					}
					if srt == "" {
						ok = false
						break
					}
					t = e.heapGet(s, k, srt)
				} else {
					srt := ""
					for _, s2 := range ins {
						if t2, ok2 := s2.heap[k]; ok2 && t2 != nil && t2.S != "" {
							srt = t2.Sort
						}
					}
					if srt == "" {
						ok = false
						break
					}
					t = e.heapGet(s, k, srt)
				}
			}
			ts = append(ts, t)
		}
		if !ok {
			// unknown on some path: leave to lazy fresh read
			if !strings.HasPrefix(k, "L") {
				out.heap[k] = &Term{S: "", Sort: ""}
			}
			continue
		}
		allSame := true
		for _, t := range ts[1:] {
			if t.S != ts[0].S {
				allSame = false
			}
		}
		if allSame {
			out.heap[k] = ts[0]
			continue
		}
		m := ts[len(ts)-1]
		for i := len(ts) - 2; i >= 0; i-- {
			m = Ite(ins[i].pc, ts[i], m)
		}
		out.heap[k] = e.def(m.Sort, m)
	}
	return out
}


func (e *Exec) storeAddr(in ssa.Instruction) ssa.Value {
	if s, ok := in.(*ssa.Store); ok {
		return s.Addr
	}
	if v, ok := in.(ssa.Value); ok {
		return v
	}
	return nil
}
