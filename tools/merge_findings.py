#!/usr/bin/env python3
# tools/merge_findings.py <proposals.json> "<what text>" [obligation-substring]: add replay-confirmed proposals to known-findings.json
import json,sys
k=json.load(open('/verif/known-findings.json'))
new=json.load(open(sys.argv[1])) or []
what=sys.argv[2]
sel=sys.argv[3] if len(sys.argv)>3 else ''
have={(x['property'],x['obligation']) for x in k}
n=0
for x in new:
    if sel and sel not in x['obligation']: continue
    if (x['property'],x['obligation']) in have: continue
    x['what']=(what+' Example: '+x.get('example',''))[:700]
    x['input_class']=x.get('example','')[:200]
    k.append(x); n+=1
json.dump(k,open('/verif/known-findings.json','w'),indent=1)
print('added',n)
