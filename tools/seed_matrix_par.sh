#!/bin/bash
# tools/seed_matrix_par.sh [-j N] [seed-dir ...]
# Development tool: runs seeded changes against their property's quick check in parallel, each against its own
# scratch worktree of /repo (HEAD + patch) and its own scratch copy of /verif, so /repo itself is never touched
# and several seeds run at once. Verdicts go to seeded/MATRIX.par.txt (or stdout lines). The registered checks
# never use this path: they always verify /repo itself.
J=4
if [ "$1" = "-j" ]; then J=$2; shift; shift; fi
V=${SLIPVC_VERIF:-/verif}
cd $V || exit 2
. ./env.sh
seeds=("$@"); [ ${#seeds[@]} -eq 0 ] && seeds=(seeded/C*-*)
S=/tmp/seedpar.$$; mkdir -p $S
[ -x bin/slipvc ] || (cd engine && go build -o ../bin/slipvc ./cmd/slipvc)
one() {
  d=$(readlink -f "$1"); name=$(basename $d); prop=${name%%-*}
  w=$S/$name; mkdir -p $w
  git -C /repo worktree add --detach -f $w/repo HEAD >/dev/null 2>&1 || { echo "$name: WORKTREE FAILED"; return; }
  if ! git -C $w/repo apply "$d/patch.diff" 2>/dev/null; then echo "$name: PATCH DOES NOT APPLY"; git -C /repo worktree remove --force $w/repo; rm -rf $w; return; fi
  mkdir -p $w/verif/bin
  for f in baseline known-findings.json harness env.sh check MANIFEST.json; do cp -rp $V/$f $w/verif/; done
  cp $V/bin/slipvc $w/verif/bin/
  res=$(SLIPVC_REPO=$w/repo SLIPVC_VERIF=$w/verif $w/verif/check $prop ${TIER:-quick} 2>&1)
  n=$(echo "$res" | grep -c '^VIOLATION')
  first=$(echo "$res" | grep '^VIOLATION' | head -1 | sed "s#.*replay=$w/verif/replays/##")
  if echo "$res" | grep -q '^ERROR'; then echo "$name: ERROR $(echo "$res" | grep '^ERROR' | head -1 | cut -c1-200)";
  elif [ "$n" -gt 0 ]; then echo "$name: CAUGHT ($n) $first"; else echo "$name: missed"; fi
  [ -n "$KEEPLOG" ] && echo "$res" > $V/seeded/$name/last_run.log
  git -C /repo worktree remove --force $w/repo >/dev/null 2>&1
  rm -rf $w
}
export -f one; export S V TIER KEEPLOG
printf '%s\n' "${seeds[@]}" | xargs -P $J -I{} bash -c 'one {}' | tee $S.out
sort $S.out > seeded/MATRIX.par.txt
rm -rf $S $S.out
git -C /repo worktree prune
