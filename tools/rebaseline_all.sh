#!/bin/bash
# development helper: rebaseline every registered property on the current (unchanged) tree,
# replay undecided obligations and merge confirmed ones into known-findings.json
cd /verif
props="${@:-$(jq -r '.checks[].property_id' MANIFEST.json)}"
for p in $props; do
  tier=quick; case $p in C09|C04|C05|C06|C03) tier=thorough;; esac
  rm -f /tmp/propose_$p.json
  ./check $p $tier -write-baseline -propose-findings /tmp/propose_$p.json | grep -v '^KNOWN-FINDING' | tail -2
  python3 - "$p" <<'PY'
import json,sys
p=sys.argv[1]
k=json.load(open('/verif/known-findings.json'))
base=json.load(open('/verif/baseline/%s.json'%p))
import os
new=(json.load(open('/tmp/propose_%s.json'%p)) if os.path.exists('/tmp/propose_%s.json'%p) else []) or []
have={(x['property'],x['obligation']) for x in k}
# prune open entries of this property whose obligation no longer exists or is discharged now
kept=[]
for x in k:
    if x['property']==p and x.get('status')!='fixed':
        b=base.get(x['obligation'])
        if b is None or b['status']=='discharged':
            print('pruned stale finding',x['obligation']); continue
    kept.append(x)
for x in new:
    if (x['property'],x['obligation']) not in have:
        x['what']=x['what'][:300]; x['example']=x.get('example','')[:200]
        if p=='C09': x['input_class']=x['example'].split('   ;')[0].strip()
        kept.append(x); print('added finding',x['obligation'])
json.dump(kept,open('/verif/known-findings.json','w'),indent=1)
PY
done
