#!/bin/bash
# development: stop a running rebaseline / check (matches process names exactly, not command lines)
pkill -x rebaseline_all. 2>/dev/null; pkill -f '^/bin/bash tools/rebaseline_all.sh' 2>/dev/null; pkill -f '^bash tools/rebaseline_all.sh' 2>/dev/null
pkill -x slipvc 2>/dev/null; pkill -x z3 2>/dev/null; pkill -x z3-new 2>/dev/null; pkill -x cvc5 2>/dev/null; pkill -x callfault 2>/dev/null
sleep 1
pgrep -x slipvc | wc -l
