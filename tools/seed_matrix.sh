#!/bin/bash
# tools/seed_matrix.sh: run every seeded change against its property's quick check; summary in seeded/MATRIX.txt
cd /verif
out=seeded/MATRIX.txt; : > $out
for d in seeded/C*-*; do
  name=$(basename $d); prop=${name%%-*}
  if ! jq -e --arg p "$prop" '.checks[] | select(.property_id==$p)' MANIFEST.json >/dev/null 2>&1 && [ ! -f baseline/$prop.json ]; then echo "$name: no check for $prop yet" >> $out; continue; fi
  res=$(tools/seedcheck.sh $d $prop 2>&1)
  if echo "$res" | grep -q "patch does not apply"; then echo "$name: PATCH DOES NOT APPLY" >> $out; continue; fi
  n=$(echo "$res" | grep -c '^VIOLATION')
  first=$(echo "$res" | grep '^VIOLATION' | head -1 | sed 's#.*replay=/verif/replays/##')
  if [ "$n" -gt 0 ]; then echo "$name: CAUGHT ($n) $first" >> $out; else echo "$name: missed" >> $out; fi
done
cat $out
