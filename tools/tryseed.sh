#!/bin/bash
# tools/tryseed.sh <seed-dir> <regexp>: development - run the contracts whose function matches against a scratch
# worktree of /repo (HEAD + the contract files as they are in /repo's working tree + the seed's patch); /repo untouched
d=$(readlink -f "$1"); re="$2"
w=/tmp/tryseed.$$
git -C /repo worktree add -q --detach $w HEAD || exit 2
(cd /repo && for f in $(git ls-files | grep verif_contracts.go); do cp $f $w/$f; done)
git -C $w apply "$d/patch.diff" || echo "PATCH DOES NOT APPLY"
SLIPVC_REPO=$w /verif/tools/vc contracts -match "$re" 2>&1 | grep -v "^contract files\|dropped:"
git -C /repo worktree remove --force $w
