#!/bin/bash
# tools/import_seed.sh <Cnn> [src-dir]: copy a sub-agent's seed (patch.diff, demo_test.go, meta.json) into
# seeded/<Cnn>-<next free index>, then confirm it with tools/verify_seed.sh.
p=$1; src=${2:-/tmp/wt4/$p/_seed}
cd /verif
n=1; while [ -e seeded/$p-$n ]; do n=$((n+1)); done
[ $n -lt 9 ] && [ ! -e seeded/$p-9 ] && n=9   # round 4 seeds are numbered 9
while [ -e seeded/$p-$n ]; do n=$((n+1)); done
d=seeded/$p-$n
mkdir -p $d
cp $src/patch.diff $src/meta.json $d/
cp $src/demo_test.go $d/demo_test.go
git -C /repo apply --check /verif/$d/patch.diff || { echo "$d: patch does not apply to /repo HEAD"; }
tools/verify_seed.sh $d
