#!/bin/bash
# development: run every registered quick check on /repo as it is, print one line per property
cd /verif; mkdir -p /tmp/q
for p in C01 C02 C03 C04 C05 C06 C07 C08 C09 C10 C11 C12 C13 C14 C15 C16 C17 C18 C19 C20; do echo $p; done | xargs -P ${J:-5} -I{} bash -c 'start=$(date +%s); ./check {} quick > /tmp/q/{}.log 2>&1; echo "{} exit=$? $(( $(date +%s)-start ))s $(grep -c ^VIOLATION /tmp/q/{}.log) viol $(grep -c ^KNOWN-FINDING /tmp/q/{}.log) kf | $(tail -1 /tmp/q/{}.log)"' 2>&1 | sort
