#!/bin/bash
# run the slip tests that can pass in this sandbox
source /verif/env.sh
cd /repo
SKIP='TestRequireLoadPath|TestRequireNotReadable|TestMakeApp.*|TestSnapshotRequire|TestSystem.*|TestAppRun.*|TestFlavorGoMakeOnly|TestHistoryAdd|TestStashAdd|TestStandardInput|TestStandardOutput'
go test -vet=off -count=1 -skip "$SKIP" ./... 2>&1 | grep -v "^ok\|no test files" | head -30
