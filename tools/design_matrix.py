#!/usr/bin/env python3
# renders seeded/MATRIX.txt (+ each seed's meta.json) as section 7.5 of DESIGN.md (between the markers)
import json,re,os
rows=[]
for line in open('/verif/seeded/MATRIX.txt'):
    m=re.match(r'(C\d\d-\d): (.*)',line.strip())
    if not m: continue
    sid,res=m.groups()
    meta=json.load(open('/verif/seeded/%s/meta.json'%sid))
    summ=meta.get('summary','').replace('\n',' ').replace('|','/')
    summ=summ[:230]+('…' if len(summ)>230 else '')
    if res.startswith('CAUGHT'):
        mm=re.match(r'CAUGHT \((\d+)\) \S+?/(.*?)\.json(.*)',res)
        ob=mm.group(2) if mm else res
        how='replayed on the real code' if mm and 'no-failing-input-found' not in mm.group(3) else 'no-failing-input-found'
        verdict='caught: `%s` (%s)'%(ob,how)
    else:
        verdict='**missed**'
    if meta.get('status'): verdict+=' — '+meta['status'][:200]
    rows.append('| %s | %s | %s |'%(sid,summ,verdict))
tbl='| seed | change (from the sub-agent\'s description) | verdict of `./check <Cnn> quick` |\n|---|---|---|\n'+'\n'.join(rows)
p='/verif/DESIGN.md'
s=open(p).read()
b='<!-- seed-matrix:begin -->'; e='<!-- seed-matrix:end -->'
if b in s:
    s=s[:s.index(b)+len(b)]+'\n'+tbl+'\n'+s[s.index(e):]
    open(p,'w').write(s)
    print('updated',len(rows))
else:
    print('markers missing')
