#!/usr/bin/env python3
# renders seeded/MATRIX.txt (+ each seed's meta.json) as section 7.5 of DESIGN.md (between the markers)
import json,re,os
rows=[]
for line in open('/verif/seeded/MATRIX.txt'):
    m=re.match(r'(C\d\d-\d+): (.*)',line.strip())
    if not m: continue
    sid,res=m.groups()
    meta=json.load(open('/verif/seeded/%s/meta.json'%sid))
    summ=meta.get('summary','').replace('\n',' ').replace('|','/')
    summ=summ[:230]+('…' if len(summ)>230 else '')
    if res.startswith('CAUGHT'):
        mm=re.match(r'CAUGHT \((\d+)\) \S+?/(.*?)\.json(.*)',res)
        ob=mm.group(2) if mm else res
        how='replayed on the real code' if mm and 'no-failing-input-found' not in mm.group(3) else 'no-failing-input-found'
        verdict='caught: `%s` (%s)'%(ob,how)
    else:
        verdict='**missed**'
    if meta.get('status'): verdict+=' — '+meta['status'][:200]
    rows.append('| %s | %s | %s |'%(sid,summ,verdict))
tbl='| seed | change (from the sub-agent\'s description) | verdict of `./check <Cnn> quick` |\n|---|---|---|\n'+'\n'.join(rows)
p='/verif/DESIGN.md'
s=open(p).read()
b='<!-- seed-matrix:begin -->'; e='<!-- seed-matrix:end -->'
if b in s:
    s=s[:s.index(b)+len(b)]+'\n'+tbl+'\n'+s[s.index(e):]
    open(p,'w').write(s)
    print('updated',len(rows))
else:
    print('markers missing')

# --- section 7.6: what each check claims and what it leaves undecided (from MANIFEST.json + evidence) ---
m=json.load(open('/verif/MANIFEST.json'))
rows=[]
for c in m['checks']:
    pid=c['property_id']
    try:
        ev=json.load(open('/verif/evidence/%s.json'%pid))['coverage']
    except Exception:
        ev={}
    rows.append('#### %s\n\n*Decided by:* %s\n\n*Claimed:* %s\n\n*Not decided / assumed:* %s\n\n*Last run on the unchanged tree:* %s obligations discharged under %s functions; %s known findings; %s undecided.\n'%(
        pid,c['technique'],c['level_claimed']['text'],c['level_note'],ev.get('discharged','?'),ev.get('functions_under_contract','?'),len(ev.get('known_findings') or []),ev.get('undecided_count','?')))
s=open(p).read()
b='<!-- status:begin -->'; e='<!-- status:end -->'
if b in s:
    s=s[:s.index(b)+len(b)]+'\n'+'\n'.join(rows)+'\n'+s[s.index(e):]
    open(p,'w').write(s)
    print('status updated',len(rows))
