#!/bin/bash
# tools/verify_seed.sh <seed-dir>: confirm in a scratch worktree that the demo fails with the patch,
# passes without it, and that the test package(s) of the changed files still pass with the patch.
d=$(readlink -f "$1"); name=$(basename "$d")
. /verif/env.sh
wt=/tmp/wt/verify-$name
git -C /repo worktree add -q --detach "$wt" HEAD || exit 2
cleanup() { git -C /repo worktree remove --force "$wt" 2>/dev/null; }
trap cleanup EXIT
cd "$wt"
copy_to=$(jq -r '.demo.copy_to' "$d/meta.json"); run=$(jq -r '.demo.run' "$d/meta.json")
demo=$(ls "$d" | grep -E 'demo.*_test.go|demo.lisp' | head -1)
cp "$d/$demo" "$wt/$copy_to/zz_$demo"
SKIP='TestRequireLoadPath|TestRequireNotReadable|TestMakeApp.*|TestSnapshotRequire|TestSystem.*|TestAppRun.*|TestFlavorGoMakeOnly|TestHistoryAdd|TestStashAdd|TestStandardInput|TestStandardOutput'
pass_without=no; fail_with=no; suite=unknown
if (eval "$run") >/tmp/vs-$name-clean.log 2>&1; then pass_without=yes; fi
git apply "$d/patch.diff" || { echo "$name: patch does not apply"; exit 2; }
if ! (eval "$run") >/tmp/vs-$name-patched.log 2>&1; then fail_with=yes; fi
rm -f "$wt/$copy_to/zz_$demo"
# test packages: the directory of the demo plus ./test (root tests)
if go test -vet=off -count=1 -skip "$SKIP" ./$copy_to/ ./test/ >/tmp/vs-$name-suite.log 2>&1; then suite=ok; else suite=FAIL; fi
echo "$name: demo_passes_without_patch=$pass_without demo_fails_with_patch=$fail_with tests_with_patch=$suite"
