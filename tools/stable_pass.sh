#!/bin/bash
# tools/stable_pass.sh [repo-dir]: run the pinned suite (go test -json) and report every test of
# /root/.vp/BASELINE.json's stable_pass list that does not pass now.
. /verif/env.sh
R=${1:-/repo}
cd $R && go test -json -vet=off -count=1 -timeout 25m ./... > /tmp/stable_pass.$$.json 2>/dev/null
python3 - /tmp/stable_pass.$$.json <<'PY'
import json,sys
want=set(json.load(open('/root/.vp/BASELINE.json'))['stable_pass'])
got={}
for l in open(sys.argv[1]):
    try: e=json.loads(l)
    except Exception: continue
    if e.get('Test') and e.get('Action') in('pass','fail','skip'):
        got[e['Package']+'::'+e['Test']]=e['Action']
bad=[t for t in sorted(want) if got.get(t)!='pass']
print('stable_pass=%d passing_now=%d not_passing=%d'%(len(want),sum(1 for t in want if got.get(t)=='pass'),len(bad)))
for t in bad[:40]: print('  NOT PASSING:',t,got.get(t))
PY
rm -f /tmp/stable_pass.$$.json
