#!/bin/bash
# tools/seedcheck.sh <seed-dir> <Cnn> [tier]: apply a seeded change to /repo, run the property's check, undo.
d=$(readlink -f "$1"); prop="$2"; tier="${3:-quick}"
cd /verif
git -C /repo apply "$d/patch.diff" || { echo "patch does not apply"; exit 2; }
# the evidence file of a run on a changed tree must never be committed: keep the clean one
cp "evidence/$prop.json" "/tmp/evidence_$prop.keep" 2>/dev/null
./check "$prop" "$tier" | grep -v '^KNOWN-FINDING' | tail -6
rc=${PIPESTATUS[0]}
cp "/tmp/evidence_$prop.keep" "evidence/$prop.json" 2>/dev/null
git -C /repo apply -R "$d/patch.diff" || git -C /repo checkout -- .
git -C /repo status --short | grep -v '^??' | head -3
exit $rc
