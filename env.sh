# environment shared by every registered command (see DESIGN 2.1)
export PATH=/opt/veriftools/go1.26.8/bin:$PATH
export GOTOOLCHAIN=local GOFLAGS=-mod=mod GOPROXY=off
unset GOSUMDB
