// arith: replay harness of C05 (DESIGN Appendix D, `arith`). Evaluates the
// integer operators of the real interpreter on the boundary grid and compares
// with math/big; also checks that operands are not altered and trichotomy.
package main

import (
	"regexp"
	"encoding/json"
	"fmt"
	"math/big"
	"os"
	"strings"

	"github.com/ohler55/slip"
	_ "github.com/ohler55/slip/pkg"
)

type Failure struct {
	Op   string `json:"op"`
	Lisp string `json:"lisp"`
	Got  string `json:"got"`
	Want string `json:"want"`
	Kind string `json:"kind"` // value | fault | mutated | noncanonical
	Class string `json:"class"` // small: every integer literal below 2^62 in magnitude; edge: one in [2^62, 2^63]; big: one beyond, or operands forced to bignums
}

func mkF(op, lisp, got, want, kind string) Failure {
	return Failure{Op: op, Lisp: lisp, Got: got, Want: want, Kind: kind}
}

func grid() []*big.Int {
	var g []*big.Int
	add := func(s string) {
		b, _ := new(big.Int).SetString(s, 10)
		g = append(g, b, new(big.Int).Neg(b))
	}
	g = append(g, big.NewInt(0))
	for _, s := range []string{"1", "2", "3", "7", "2147483648", "4294967296", "4611686018427387904", "9223372036854775807", "9223372036854775808", "18446744073709551616", "18446744073709551617", "18446744073709551615", "1267650600228229401496703205376"} {
		add(s)
	}
	return g
}

func lit(b *big.Int) string { return b.String() }

func eval(src string) (res string, fault string) {
	defer func() {
		if r := recover(); r != nil {
			switch tr := r.(type) {
			case *slip.Panic:
				res = "#<condition>"
			case slip.Object:
				_ = tr
				res = "#<condition>"
			default:
				fault = fmt.Sprint(r)
			}
		}
	}()
	s := slip.NewScope()
	code := slip.ReadString(src, s)
	var v slip.Object
	for _, o := range code {
		v = s.Eval(o, 0)
	}
	return slip.ObjectString(v), ""
}

// evalEach evaluates the operations of a template one at a time against the same bound operand and
// returns the operand's printed value after the first operation that changed it (or the operand).
func evalEach(tmpl, a string) (string, string) {
	// template shape: (let (BINDINGS) OP... x): split the body at top-level forms
	body := tmpl[strings.Index(tmpl, ")) ")+3:]
	head := tmpl[:strings.Index(tmpl, ")) ")+3]
	depth, start := 0, -1
	var ops []string
	for i, c := range body {
		switch c {
		case '(':
			if depth == 0 {
				start = i
			}
			depth++
		case ')':
			depth--
			if depth == 0 && start >= 0 {
				ops = append(ops, body[start:i+1])
				start = -1
			}
		}
	}
	for _, op := range ops {
		src := fmt.Sprintf(head+"(ignore-errors "+op+") x)", a)
		got, fault := eval(src)
		if fault != "" {
			continue
		}
		if got != a && got != "#<condition>" {
			return got, ""
		}
	}
	return a, ""
}

// evalBound evaluates src with x and y bound to bignum objects holding a and b.
func evalBound(src string, a, b *big.Int) (res string, fault string) {
	defer func() {
		if r := recover(); r != nil {
			switch r.(type) {
			case *slip.Panic, slip.Object:
				res = "#<condition>"
			default:
				fault = fmt.Sprint(r)
			}
		}
	}()
	s := slip.NewScope()
	s.Let(slip.Symbol("x"), (*slip.Bignum)(new(big.Int).Set(a)))
	s.Let(slip.Symbol("y"), (*slip.Bignum)(new(big.Int).Set(b)))
	code := slip.ReadString(src, s)
	var v slip.Object
	for _, o := range code {
		v = s.Eval(o, 0)
	}
	return slip.ObjectString(v), ""
}

var intLit = regexp.MustCompile(`-?[0-9]+`)

func classOf(src string) string {
	if strings.Contains(src, "bignum") {
		return "big"
	}
	cls := "small"
	p62 := new(big.Int).Lsh(big.NewInt(1), 62)
	p63 := new(big.Int).Lsh(big.NewInt(1), 63)
	for _, m := range intLit.FindAllString(src, -1) {
		v, ok := new(big.Int).SetString(m, 10)
		if !ok {
			continue
		}
		v.Abs(v)
		switch {
		case v.Cmp(p63) > 0:
			return "big"
		case v.Cmp(p62) >= 0:
			cls = "edge"
		}
	}
	return cls
}

func floorDiv(a, b *big.Int) (*big.Int, *big.Int) {
	q, r := new(big.Int), new(big.Int)
	q.QuoRem(a, b, r) // truncated
	if r.Sign() != 0 && (r.Sign() < 0) != (b.Sign() < 0) {
		q.Sub(q, big.NewInt(1))
		r.Add(r, b)
	}
	return q, r
}

func main() {
	devnull, _ := os.OpenFile("/dev/null", os.O_WRONLY, 0)
	out := os.Stdout
	os.Stdout = devnull
	os.Stderr = devnull
	g := grid()
	var fails []Failure
	seen := map[string]int{}
	perClass := map[string]int{}
	report := func(f Failure) {
		f.Class = classOf(f.Lisp)
		seen[f.Op+"/"+f.Kind]++
		perClass[f.Op+"/"+f.Kind+"/"+f.Class]++
		if perClass[f.Op+"/"+f.Kind+"/"+f.Class] <= 3 {
			fails = append(fails, f)
		}
	}
	check := func(op, src string, want string) {
		got, fault := eval(src)
		if fault != "" {
			report(mkF(op, src, fault, want, "fault"))
			return
		}
		if got != want {
			report(mkF(op, src, got, want, "value"))
		}
	}
	type bin struct {
		name string
		f    func(a, b *big.Int) (string, bool)
	}
	bins := []bin{
		{"+", func(a, b *big.Int) (string, bool) { return new(big.Int).Add(a, b).String(), true }},
		{"-", func(a, b *big.Int) (string, bool) { return new(big.Int).Sub(a, b).String(), true }},
		{"*", func(a, b *big.Int) (string, bool) { return new(big.Int).Mul(a, b).String(), true }},
		{"floor", func(a, b *big.Int) (string, bool) {
			if b.Sign() == 0 {
				return "#<condition>", true
			}
			q, _ := floorDiv(a, b)
			return q.String(), true
		}},
		{"truncate", func(a, b *big.Int) (string, bool) {
			if b.Sign() == 0 {
				return "#<condition>", true
			}
			return new(big.Int).Quo(a, b).String(), true
		}},
		{"ceiling", func(a, b *big.Int) (string, bool) {
			if b.Sign() == 0 {
				return "#<condition>", true
			}
			q, r := floorDiv(a, b)
			if r.Sign() != 0 {
				q.Add(q, big.NewInt(1))
			}
			return q.String(), true
		}},
		{"round", func(a, b *big.Int) (string, bool) {
			if b.Sign() == 0 {
				return "#<condition>", true
			}
			q, r := floorDiv(a, b) // r/b in [0,1)
			twice := new(big.Int).Abs(new(big.Int).Lsh(r, 1))
			switch twice.Cmp(new(big.Int).Abs(b)) {
			case 1:
				q.Add(q, big.NewInt(1))
			case 0:
				if q.Bit(0) != 0 {
					q.Add(q, big.NewInt(1))
				}
			}
			return q.String(), true
		}},
		{"mod", func(a, b *big.Int) (string, bool) {
			if b.Sign() == 0 {
				return "#<condition>", true
			}
			_, r := floorDiv(a, b)
			return r.String(), true
		}},
		{"rem", func(a, b *big.Int) (string, bool) {
			if b.Sign() == 0 {
				return "#<condition>", true
			}
			return new(big.Int).Rem(a, b).String(), true
		}},
		{"gcd", func(a, b *big.Int) (string, bool) {
			return new(big.Int).GCD(nil, nil, new(big.Int).Abs(a), new(big.Int).Abs(b)).String(), true
		}},
		{"max", func(a, b *big.Int) (string, bool) {
			if a.Cmp(b) >= 0 {
				return a.String(), true
			}
			return b.String(), true
		}},
		{"min", func(a, b *big.Int) (string, bool) {
			if a.Cmp(b) <= 0 {
				return a.String(), true
			}
			return b.String(), true
		}},
		{"/", func(a, b *big.Int) (string, bool) {
			if b.Sign() == 0 {
				return "#<condition>", true
			}
			r := new(big.Rat).SetFrac(a, b)
			if r.IsInt() {
				return r.Num().String(), true
			}
			return r.String(), true
		}},
	}
	for _, op := range bins {
		for _, a := range g {
			for _, b := range g {
				want, ok := op.f(a, b)
				if !ok {
					continue
				}
				src := fmt.Sprintf("(%s %s %s)", op.name, lit(a), lit(b))
				if op.name == "floor" || op.name == "truncate" || op.name == "ceiling" || op.name == "round" {
					src = fmt.Sprintf("(values (%s %s %s))", op.name, lit(a), lit(b))
				}
				check(op.name, src, want)
			}
		}
	}
	type un struct {
		name string
		f    func(a *big.Int) string
	}
	uns := []un{
		{"-", func(a *big.Int) string { return new(big.Int).Neg(a).String() }},
		{"abs", func(a *big.Int) string { return new(big.Int).Abs(a).String() }},
		{"1+", func(a *big.Int) string { return new(big.Int).Add(a, big.NewInt(1)).String() }},
		{"1-", func(a *big.Int) string { return new(big.Int).Sub(a, big.NewInt(1)).String() }},
		{"isqrt", func(a *big.Int) string {
			if a.Sign() < 0 {
				return "#<condition>"
			}
			return new(big.Int).Sqrt(a).String()
		}},
	}
	for _, op := range uns {
		for _, a := range g {
			check(op.name+"/1", fmt.Sprintf("(%s %s)", op.name, lit(a)), op.f(a))
		}
	}
	// solver models: operand values from a refuted obligation, forced into the bignum representation
	// (the bignum branches are reached with small values too, when the other operand is a bignum)
	if extra := os.Getenv("ARITH_EXTRA"); extra != "" {
		var xs []*big.Int
		for _, f := range strings.Split(extra, ",") {
			if v, ok := new(big.Int).SetString(strings.TrimSpace(f), 10); ok {
				xs = append(xs, v)
			}
		}
		for _, op := range bins {
			for _, a := range xs {
				for _, b := range xs {
					want, _ := op.f(a, b)
					src := fmt.Sprintf("(%s x y)", op.name)
					switch op.name {
					case "floor", "truncate", "ceiling", "round":
						src = fmt.Sprintf("(values (%s x y))", op.name)
					}
					got, fault := evalBound(src, a, b)
					shown := fmt.Sprintf("%s with x = bignum %s, y = bignum %s", src, a, b)
					if fault != "" {
						report(mkF(op.name, shown, fault, want, "fault"))
					} else if got != want {
						report(mkF(op.name, shown, got, want, "value"))
					}
				}
			}
		}
	}
	// operands are never altered: bind, operate, re-print (integers and ratios)
	type mut struct{ op, tmpl string } // %[1]s: operand literal
	muts := []mut{
		{"+", "(let ((x %[1]s) (y 3)) (+ x y) (+ y x) (+ x x) x)"},
		{"-", "(let ((x %[1]s)) (- x) (- x 1) (- 1 x) (- x x) x)"},
		{"*", "(let ((x %[1]s) (y 3)) (* x y) (* y x) (* x x) x)"},
		{"/", "(let ((x %[1]s) (y 3)) (/ x) (/ x y) (/ y x) (/ x x) x)"},
		{"floor", "(let ((x %[1]s) (y 3)) (floor x y) (floor y x) (floor x) x)"},
		{"ceiling", "(let ((x %[1]s) (y 3)) (ceiling x y) (ceiling y x) (ceiling x) x)"},
		{"truncate", "(let ((x %[1]s) (y 3)) (truncate x y) (truncate y x) (truncate x) x)"},
		{"round", "(let ((x %[1]s) (y 3)) (round x y) (round y x) (round x) x)"},
		{"mod", "(let ((x %[1]s) (y 3)) (mod x y) (mod y x) x)"},
		{"rem", "(let ((x %[1]s) (y 3)) (rem x y) (rem y x) x)"},
		{"1+", "(let ((x %[1]s)) (1+ x) x)"},
		{"1-", "(let ((x %[1]s)) (1- x) x)"},
		{"abs", "(let ((x %[1]s)) (abs x) x)"},
		{"isqrt", "(let ((x %[1]s)) (isqrt (abs x)) (isqrt x) x)"},
		{"integer-length", "(let ((x %[1]s)) (integer-length x) x)"},
		{"gcd", "(let ((x %[1]s) (y 3)) (gcd x y) (gcd y x) x)"},
		{"lcm", "(let ((x %[1]s) (y 3)) (lcm x y) (lcm y x) x)"},
		{"max", "(let ((x %[1]s) (y 3)) (max x y) (max y x) x)"},
		{"min", "(let ((x %[1]s) (y 3)) (min x y) (min y x) x)"},
		{"decf-second", "(let ((x %[1]s) (y 5)) (decf y x) x)"},
		{"incf-second", "(let ((x %[1]s) (y 5)) (incf y x) x)"},
		{"expt", "(let ((x %[1]s)) (expt x 2) x)"},
		{"ash", "(let ((x %[1]s)) (ash x 2) (ash x -2) x)"},
		{"logand", "(let ((x %[1]s)) (logand x 7) (logior x 7) (logxor x 7) (lognot x) x)"},
		{"signum", "(let ((x %[1]s)) (signum x) (evenp x) (oddp x) x)"},
		{"numerator", "(let ((x %[1]s)) (numerator x) (denominator x) x)"},
		{"compare", "(let ((x %[1]s) (y 3)) (< x y) (> x y) (= x y) (<= x y) (>= x y) (/= x y) (zerop x) (plusp x) (minusp x) x)"},
		{"format-e", "(let ((x %[1]s)) (format nil \"~E ~F ~G ~D ~B ~X ~R\" x x x x x x x) x)"},
		{"setf-ldb", "(let* ((x %[1]s) (y x)) (setf (ldb (byte 1 0) y) (if (oddp x) 0 1)) x)"},
		{"setf-mask-field", "(let* ((x %[1]s) (y x)) (setf (mask-field (byte 1 0) y) (if (oddp x) 0 1)) x)"},
	}
	var operands []string
	for _, a := range g {
		if !a.IsInt64() {
			operands = append(operands, lit(a))
		}
	}
	operands = append(operands, "3/7", "-3/7", "18446744073709551617/3", "-5/18446744073709551617")
	for _, m := range muts {
		for _, a := range operands {
			if strings.Contains(a, "/") {
				switch m.op {
				case "isqrt", "integer-length", "gcd", "lcm", "ash", "logand", "setf-ldb", "setf-mask-field", "mod", "rem":
					if m.op != "mod" && m.op != "rem" {
						continue
					}
				}
			}
			src := fmt.Sprintf(m.tmpl, a)
			// every sub-form on its own: a fault in one must not hide a change made by another
			var got, fault string
			if strings.HasPrefix(m.tmpl, "(let* ") {
				got, fault = eval(src)
			} else {
				got, fault = evalEach(m.tmpl, a)
			}
			if fault == "" && got != a && got != "#<condition>" && got != "nil" {
				report(mkF(m.op, src, got, a, "mutated"))
			}
		}
	}
	// comparisons: exactly one of < = > on the integer grid
	for _, a := range g {
		for _, b := range g {
			c := a.Cmp(b)
			exp := map[string]bool{"<": c < 0, "=": c == 0, ">": c > 0, "<=": c <= 0, ">=": c >= 0, "/=": c != 0}
			for opn, w := range exp {
				want := "nil"
				if w {
					want = "t"
				}
				check(opn, fmt.Sprintf("(%s %s %s)", opn, lit(a), lit(b)), want)
			}
		}
	}
	// comparisons on ratios (parts up to and beyond 64 bits): the answer of the exact rational order
	var rats []*big.Rat
	nums := []string{"1", "3", "5", "-5", "2147483649", "4611686018427387905", "9223372036854775807", "-9223372036854775807", "-4611686018427387904", "18446744073709551617"}
	dens := []string{"2", "3", "7", "2147483647", "4611686018427387904", "9223372036854775807", "18446744073709551616"}
	for _, n := range nums {
		for _, d := range dens {
			nn, _ := new(big.Int).SetString(n, 10)
			dd, _ := new(big.Int).SetString(d, 10)
			r := new(big.Rat).SetFrac(nn, dd)
			if !r.IsInt() {
				rats = append(rats, r)
			}
		}
	}
	for _, a := range rats {
		for _, b := range rats {
			c := a.Cmp(b)
			exp := map[string]bool{"<": c < 0, "=": c == 0, ">": c > 0, "<=": c <= 0, ">=": c >= 0, "/=": c != 0}
			for opn, w := range exp {
				want := "nil"
				if w {
					want = "t"
				}
				check(opn, fmt.Sprintf("(%s %s %s)", opn, a.String(), b.String()), want)
			}
			mx, mn := a, b
			if c < 0 {
				mx, mn = b, a
			}
			check("max", fmt.Sprintf("(max %s %s)", a.String(), b.String()), mx.String())
			check("min", fmt.Sprintf("(min %s %s)", a.String(), b.String()), mn.String())
		}
	}
	os.Stdout = out
	enc := json.NewEncoder(out)
	enc.SetIndent("", " ")
	_ = enc.Encode(map[string]any{"failures": fails, "counts": seen, "grid": len(g)})
	_ = strings.TrimSpace
}
