// arith: replay harness of C05 (DESIGN Appendix D, `arith`). Evaluates the
// integer operators of the real interpreter on the boundary grid and compares
// with math/big; also checks that operands are not altered and trichotomy.
package main

import (
	"encoding/json"
	"fmt"
	"math/big"
	"os"
	"strings"

	"github.com/ohler55/slip"
	_ "github.com/ohler55/slip/pkg"
)

type Failure struct {
	Op   string `json:"op"`
	Lisp string `json:"lisp"`
	Got  string `json:"got"`
	Want string `json:"want"`
	Kind string `json:"kind"` // value | fault | mutated | noncanonical
}

func grid() []*big.Int {
	var g []*big.Int
	add := func(s string) {
		b, _ := new(big.Int).SetString(s, 10)
		g = append(g, b, new(big.Int).Neg(b))
	}
	g = append(g, big.NewInt(0))
	for _, s := range []string{"1", "2", "3", "7", "2147483648", "4294967296", "4611686018427387904", "9223372036854775807", "9223372036854775808", "18446744073709551616", "18446744073709551617", "18446744073709551615", "1267650600228229401496703205376"} {
		add(s)
	}
	return g
}

func lit(b *big.Int) string { return b.String() }

func eval(src string) (res string, fault string) {
	defer func() {
		if r := recover(); r != nil {
			switch tr := r.(type) {
			case *slip.Panic:
				res = "#<condition>"
			case slip.Object:
				_ = tr
				res = "#<condition>"
			default:
				fault = fmt.Sprint(r)
			}
		}
	}()
	s := slip.NewScope()
	code := slip.ReadString(src, s)
	var v slip.Object
	for _, o := range code {
		v = s.Eval(o, 0)
	}
	return slip.ObjectString(v), ""
}

func floorDiv(a, b *big.Int) (*big.Int, *big.Int) {
	q, r := new(big.Int), new(big.Int)
	q.QuoRem(a, b, r) // truncated
	if r.Sign() != 0 && (r.Sign() < 0) != (b.Sign() < 0) {
		q.Sub(q, big.NewInt(1))
		r.Add(r, b)
	}
	return q, r
}

func main() {
	devnull, _ := os.OpenFile("/dev/null", os.O_WRONLY, 0)
	out := os.Stdout
	os.Stdout = devnull
	os.Stderr = devnull
	g := grid()
	var fails []Failure
	seen := map[string]int{}
	report := func(f Failure) {
		seen[f.Op+"/"+f.Kind]++
		if seen[f.Op+"/"+f.Kind] <= 3 {
			fails = append(fails, f)
		}
	}
	check := func(op, src string, want string) {
		got, fault := eval(src)
		if fault != "" {
			report(Failure{op, src, fault, want, "fault"})
			return
		}
		if got != want {
			report(Failure{op, src, got, want, "value"})
		}
	}
	type bin struct {
		name string
		f    func(a, b *big.Int) (string, bool)
	}
	bins := []bin{
		{"+", func(a, b *big.Int) (string, bool) { return new(big.Int).Add(a, b).String(), true }},
		{"-", func(a, b *big.Int) (string, bool) { return new(big.Int).Sub(a, b).String(), true }},
		{"*", func(a, b *big.Int) (string, bool) { return new(big.Int).Mul(a, b).String(), true }},
		{"floor", func(a, b *big.Int) (string, bool) {
			if b.Sign() == 0 {
				return "#<condition>", true
			}
			q, _ := floorDiv(a, b)
			return q.String(), true
		}},
		{"truncate", func(a, b *big.Int) (string, bool) {
			if b.Sign() == 0 {
				return "#<condition>", true
			}
			return new(big.Int).Quo(a, b).String(), true
		}},
		{"ceiling", func(a, b *big.Int) (string, bool) {
			if b.Sign() == 0 {
				return "#<condition>", true
			}
			q, r := floorDiv(a, b)
			if r.Sign() != 0 {
				q.Add(q, big.NewInt(1))
			}
			return q.String(), true
		}},
		{"mod", func(a, b *big.Int) (string, bool) {
			if b.Sign() == 0 {
				return "#<condition>", true
			}
			_, r := floorDiv(a, b)
			return r.String(), true
		}},
		{"rem", func(a, b *big.Int) (string, bool) {
			if b.Sign() == 0 {
				return "#<condition>", true
			}
			return new(big.Int).Rem(a, b).String(), true
		}},
		{"gcd", func(a, b *big.Int) (string, bool) {
			return new(big.Int).GCD(nil, nil, new(big.Int).Abs(a), new(big.Int).Abs(b)).String(), true
		}},
		{"max", func(a, b *big.Int) (string, bool) {
			if a.Cmp(b) >= 0 {
				return a.String(), true
			}
			return b.String(), true
		}},
		{"min", func(a, b *big.Int) (string, bool) {
			if a.Cmp(b) <= 0 {
				return a.String(), true
			}
			return b.String(), true
		}},
		{"/", func(a, b *big.Int) (string, bool) {
			if b.Sign() == 0 {
				return "#<condition>", true
			}
			r := new(big.Rat).SetFrac(a, b)
			if r.IsInt() {
				return r.Num().String(), true
			}
			return r.String(), true
		}},
	}
	for _, op := range bins {
		for _, a := range g {
			for _, b := range g {
				want, ok := op.f(a, b)
				if !ok {
					continue
				}
				src := fmt.Sprintf("(%s %s %s)", op.name, lit(a), lit(b))
				if op.name == "floor" || op.name == "truncate" || op.name == "ceiling" {
					src = fmt.Sprintf("(values (%s %s %s))", op.name, lit(a), lit(b))
				}
				check(op.name, src, want)
			}
		}
	}
	type un struct {
		name string
		f    func(a *big.Int) string
	}
	uns := []un{
		{"-", func(a *big.Int) string { return new(big.Int).Neg(a).String() }},
		{"abs", func(a *big.Int) string { return new(big.Int).Abs(a).String() }},
		{"1+", func(a *big.Int) string { return new(big.Int).Add(a, big.NewInt(1)).String() }},
		{"1-", func(a *big.Int) string { return new(big.Int).Sub(a, big.NewInt(1)).String() }},
		{"isqrt", func(a *big.Int) string {
			if a.Sign() < 0 {
				return "#<condition>"
			}
			return new(big.Int).Sqrt(a).String()
		}},
	}
	for _, op := range uns {
		for _, a := range g {
			check(op.name+"/1", fmt.Sprintf("(%s %s)", op.name, lit(a)), op.f(a))
		}
	}
	// operands are never altered: bind, operate, re-print
	for _, opn := range []string{"+", "-", "*", "/", "floor", "1+", "1-", "abs", "isqrt", "integer-length", "gcd", "max", "min", "decf-second", "incf-second"} {
		for _, a := range g {
			if a.Sign() == 0 {
				continue
			}
			var src string
			switch opn {
			case "1+", "1-", "abs", "isqrt", "integer-length":
				if opn == "isqrt" && a.Sign() < 0 {
					continue
				}
				src = fmt.Sprintf("(let ((x %s)) (%s x) x)", lit(a), opn)
			case "-":
				src = fmt.Sprintf("(let ((x %s)) (- x) (- x 1) x)", lit(a))
			case "decf-second":
				src = fmt.Sprintf("(let ((x %s) (y 5)) (decf y x) x)", lit(a))
			case "incf-second":
				src = fmt.Sprintf("(let ((x %s) (y 5)) (incf y x) x)", lit(a))
			default:
				src = fmt.Sprintf("(let ((x %s) (y 3)) (%s x y) (%s y x) (%s x x) x)", lit(a), opn, opn, opn)
			}
			got, fault := eval(src)
			if fault == "" && got != a.String() && got != "#<condition>" {
				report(Failure{opn, src, got, a.String(), "mutated"})
			}
		}
	}
	// comparisons: exactly one of < = > on the integer grid
	for _, a := range g {
		for _, b := range g {
			c := a.Cmp(b)
			exp := map[string]bool{"<": c < 0, "=": c == 0, ">": c > 0, "<=": c <= 0, ">=": c >= 0, "/=": c != 0}
			for opn, w := range exp {
				want := "nil"
				if w {
					want = "t"
				}
				check(opn, fmt.Sprintf("(%s %s %s)", opn, lit(a), lit(b)), want)
			}
		}
	}
	os.Stdout = out
	enc := json.NewEncoder(out)
	enc.SetIndent("", " ")
	_ = enc.Encode(map[string]any{"failures": fails, "counts": seen, "grid": len(g)})
	_ = strings.TrimSpace
}
