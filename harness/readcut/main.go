// readcut: replay harness of C02 (DESIGN Appendix D, `read-cut`). Reads each
// text whole (ReadString) and through readers that deliver it in pieces, and
// compares the object sequences; truncated texts must raise.
package main

import (
	"encoding/json"
	"fmt"
	"io"
	"os"
	"strings"

	"github.com/ohler55/slip"
	_ "github.com/ohler55/slip/pkg"
)

type chunkReader struct {
	data []byte
	n    int
}

func (c *chunkReader) Read(p []byte) (int, error) {
	if len(c.data) == 0 {
		return 0, io.EOF
	}
	n := c.n
	if n > len(c.data) {
		n = len(c.data)
	}
	if n > len(p) {
		n = len(p)
	}
	copy(p, c.data[:n])
	c.data = c.data[n:]
	return n, nil
}

type collect struct{ code slip.Code }

func (c *collect) Call(s *slip.Scope, args slip.List, depth int) slip.Object {
	c.code = append(c.code, args[0])
	return nil
}

func objs(code slip.Code) string {
	var parts []string
	for _, o := range code {
		parts = append(parts, fmt.Sprintf("%T:%s", o, slip.ObjectString(o)))
	}
	return strings.Join(parts, " ¦ ")
}

func try(f func() slip.Code) (res string, err string) {
	defer func() {
		if r := recover(); r != nil {
			err = fmt.Sprint(r)
			if p, ok := r.(*slip.Panic); ok {
				err = p.Message
			}
			if err == "" {
				err = "error"
			}
		}
	}()
	return objs(f()), ""
}

type Failure struct {
	Kind  string `json:"kind"`
	Text  string `json:"text"`
	Chunk int    `json:"chunk"`
	Whole string `json:"whole"`
	Cut   string `json:"cut"`
}

func main() {
	devnull, _ := os.OpenFile("/dev/null", os.O_WRONLY, 0)
	realOut := os.Stdout
	os.Stdout, os.Stderr = devnull, devnull
	texts := []string{
		"abcdefghijkl", "12345678901234567890123", "(abc def ghi)", "abc def ghi ", "(foo \"hello world\" bar)", "|two words| x",
		"#\\Space x", "#xff 12", "'(a b)", "(a . b)", "#(1 2 3)", "\"a\\nb\" y", "(setq x 1) 'y", "; comment\nfoo", "#*10110 z", "3/4 1.5e3 -7",
		"(quote (nested (deeper (list 1 2 3))))", "`(a ,b ,@c)", "#'car x", "(defun f (x) (* x x))",
	}
	texts = append(texts, "(a bt c) at t nil NIL ni", "\"esc\\\"aped\\n\" \"plain\" x", "#\\a #\\Newline #\\u0041 b", "#b1011 #o17 #36rzz 9", "#2A((1 2) (3 4)) q",
		"|a\\|b| |x y|z", "#| block |# after", "(1 . (2 . (3)))", "#C(1 2) w", "'#(a \"s\" #\\x) e", ",x", "`(,@a ,b)", "\"\" || ()", "1.5d0 2.5s0 1/2 -0 +5 .5 e")
	var fails []Failure
	each := &collect{}
	for _, t := range texts {
		// the per-form entry points deliver the same objects as the whole read
		whole0, werr0 := try(func() slip.Code { return slip.ReadString(t, slip.NewScope()) })
		for _, n := range []int{1, 3} {
			each.code = each.code[:0]
			cut, cerr := try(func() slip.Code {
				slip.ReadStreamEach(&chunkReader{data: []byte(t), n: n}, slip.NewScope(), each)
				return each.code
			})
			if whole0 != cut || (werr0 == "") != (cerr == "") {
				fails = append(fails, Failure{"each", t, n, whole0 + " " + werr0, cut + " " + cerr})
			}
		}
		// one-form mode: the same first form and the same end position however the bytes arrive
		var wpos int
		one, oerr := try(func() slip.Code { c, p := slip.ReadOne([]byte(t), slip.NewScope()); wpos = p; return c })
		for _, n := range []int{1, 2, 5} {
			var cpos int
			cut, cerr := try(func() slip.Code {
				c, p := slip.ReadStream(&chunkReader{data: []byte(t), n: n}, slip.NewScope(), true)
				cpos = p
				return c
			})
			if one != cut || (oerr == "") != (cerr == "") || (oerr == "" && wpos != cpos) {
				fails = append(fails, Failure{"one", t, n, fmt.Sprintf("%s @%d %s", one, wpos, oerr), fmt.Sprintf("%s @%d %s", cut, cpos, cerr)})
			}
		}
		if oerr == "" && one != "" && wpos <= len(t) {
			// the reported position is where the form ends: the text up to it reads as that form, and not one byte less
			again, aerr := try(func() slip.Code { return slip.ReadString(t[:wpos], slip.NewScope()) })
			if aerr != "" || again != one {
				fails = append(fails, Failure{"position", t, 0, fmt.Sprintf("%s @%d", one, wpos), again + " " + aerr})
			}
		}
	}
	for _, t := range texts {
		whole, werr := try(func() slip.Code { return slip.ReadString(t, slip.NewScope()) })
		for _, n := range []int{1, 2, 3, 4, 5, 7, 11} {
			cut, cerr := try(func() slip.Code {
				code, _ := slip.ReadStream(&chunkReader{data: []byte(t), n: n}, slip.NewScope())
				return code
			})
			if whole != cut || (werr == "") != (cerr == "") {
				fails = append(fails, Failure{"delivery", t, n, whole + " " + werr, cut + " " + cerr})
			}
		}
	}
	// truncation: a text that stops inside a form must not read as complete
	for _, t := range []string{"(a b", "\"abc", "|ab", "(setq x 1) '", "'", "#'", "`", "(a (b c)", "#(1 2", "`(a ,"} {
		whole, werr := try(func() slip.Code { return slip.ReadString(t, slip.NewScope()) })
		if werr == "" {
			fails = append(fails, Failure{"truncated-accepted", t, 0, whole, ""})
		}
	}
	_ = json.NewEncoder(realOut).Encode(map[string]any{"failures": fails})
}
