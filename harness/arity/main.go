// arity: replay harness of family A (DESIGN Appendix D). For each built-in it
// calls the real Call method with n arguments, n = 0 .. max+2, and reports the
// n on which the behaviour disagrees with the documented lambda list:
// "accepted" = some argument tuple of that length returns normally or fails
// with something other than an argument-count error.
package main

import (
	"encoding/json"
	"fmt"
	"os"
	"reflect"
	"runtime"
	"strings"
	"time"

	"github.com/ohler55/slip"
	_ "github.com/ohler55/slip/pkg"
)

type Target struct {
	Type string `json:"type"`
	Min  int    `json:"min"`
	Max  int    `json:"max"`
}
type Result struct {
	Type       string `json:"type"`
	Name       string `json:"name"`
	Status     string `json:"status"`
	DocRejects []int  `json:"doc_rejects_but_accepted"` // n outside the documented range that ran
	DocAccepts []int  `json:"doc_accepts_but_rejected"` // n inside the documented range refused with an argument-count error
	Detail     string `json:"detail"`
}

var dangerous = map[string]bool{"quit": true, "exit": true, "sleep": true, "run-program": true, "delete-file": true, "rename-file": true,
	"shell": true, "system": true, "load": true, "require": true, "ed": true, "break": true, "app-run": true, "repl": true,
	"y-or-n-p": true, "yes-or-no-p": true, "save": true, "snapshot": true, "watch": true, "make-server": true, "wait": true, "run": true,
	"channel-pop": true, "channel-push": true, "range": true, "select": true, "benchmark": true, "read": true, "read-line": true, "read-char": true,
	"read-byte": true, "peek-char": true, "read-preserving-whitespace": true, "listen": true, "read-char-no-hang": true, "with-open-file": true, "open": true}

// outcome: "arity" (argument count error), "ran" (value, other condition) or "fault"
func callOnce(c slip.Caller, args slip.List) (out string, msg string) {
	defer func() {
		if r := recover(); r != nil {
			m := ""
			switch tr := r.(type) {
			case *slip.Panic:
				m = tr.Message
			case error:
				m = tr.Error()
			case slip.Instance:
				if v, ok := tr.SlotValue(slip.Symbol("message")); ok {
					m = slip.ObjectString(v)
				} else {
					m = slip.ObjectString(tr)
				}
			case slip.Object:
				m = slip.ObjectString(tr)
			default:
				m = fmt.Sprint(r)
			}
			if _, ok := r.(runtime.Error); ok {
				out, msg = "fault", m
				return
			}
			lm := strings.ToLower(m)
			if strings.Contains(lm, "too few arguments") || strings.Contains(lm, "too many arguments") || strings.Contains(lm, "arguments to") {
				out, msg = "arity", m
				return
			}
			out, msg = "ran", m
		}
	}()
	_ = c.Call(slip.NewScope(), args, 0)
	return "ran", ""
}

func main() {
	var targets []Target
	if err := json.NewDecoder(os.Stdin).Decode(&targets); err != nil {
		os.Exit(2)
	}
	devnull, _ := os.OpenFile("/dev/null", os.O_WRONLY, 0)
	realOut := os.Stdout
	os.Stdout, os.Stderr = devnull, devnull
	slip.StandardOutput = &slip.OutputStream{Writer: devnull}
	slip.ErrorOutput = &slip.OutputStream{Writer: devnull}
	byType := map[string]*slip.FuncInfo{}
	for _, pkg := range slip.AllPackages() {
		pkg.EachFuncInfo(func(fi *slip.FuncInfo) {
			defer func() { _ = recover() }()
			if fi.Pkg != pkg {
				return
			}
			tn := reflect.TypeOf(fi.Create(nil)).String()
			if old, ok := byType[tn]; !ok || fi.Name < old.Name {
				byType[tn] = fi
			}
		})
	}
	pools := [][]slip.Object{{nil}, {slip.Fixnum(1)}, {slip.String("abc")}, {slip.List{slip.Fixnum(1), slip.Fixnum(2)}}, {slip.Symbol("foo")}, {slip.Symbol(":test"), slip.Symbol("eql")}}
	enc := json.NewEncoder(realOut)
	for _, t := range targets {
		res := Result{Type: t.Type, Status: "ok"}
		fi := byType[t.Type]
		if fi == nil {
			res.Status = "notfound"
			enc.Encode(res)
			continue
		}
		res.Name = fi.Name
		if dangerous[fi.Name] {
			res.Status = "skipped"
			enc.Encode(res)
			continue
		}
		done := make(chan struct{})
		go func() {
			defer close(done)
			top := t.Max + 2
			if t.Max < 0 {
				top = t.Min + 3
			}
			for n := 0; n <= top; n++ {
				inDoc := n >= t.Min && (t.Max < 0 || n <= t.Max)
				sawArity, sawRan := false, false
				for _, pool := range pools {
					args := make(slip.List, n)
					for i := range args {
						args[i] = pool[i%len(pool)]
					}
					c, ok := fi.Create(nil).(slip.Caller)
					if !ok {
						return
					}
					o, m := callOnce(c, args)
					switch o {
					case "arity":
						sawArity = true
					default:
						sawRan = true
						if res.Detail == "" && !inDoc {
							res.Detail = fmt.Sprintf("n=%d: %s %s", n, o, m)
						}
					}
				}
				if !inDoc && sawRan && !sawArity {
					res.DocRejects = append(res.DocRejects, n)
				}
				if inDoc && sawArity && !sawRan {
					res.DocAccepts = append(res.DocAccepts, n)
				}
			}
		}()
		select {
		case <-done:
		case <-time.After(10 * time.Second):
			res.Status = "hang"
			enc.Encode(res)
			os.Exit(3)
		}
		enc.Encode(res)
	}
}
