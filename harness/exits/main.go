// Command exits replays exit-forwarding obligations (C07) on the real code: for each named
// Lisp form it tries generic shapes in which a sub-form is (return-from b 'out) or (go end)
// followed by a form that logs, and reports the first shape in which something was still
// evaluated after the exit, or the exit did not reach its block / tag.
//
// stdin: {"forms": ["when", "typecase", ...]}   stdout: {"results": {"when": {...}}}
package main

import (
	"context"
	"os/exec"
	"sync"
	"time"
	"encoding/json"
	"fmt"
	"os"
	"strings"

	"github.com/ohler55/slip"
	_ "github.com/ohler55/slip/pkg"
)

type Result struct {
	Failed   bool   `json:"failed"`
	Input    string `json:"input,omitempty"`
	Observed string `json:"observed,omitempty"`
	Expected string `json:"expected,omitempty"`
	Tried    int    `json:"tried"`
	Ran      int    `json:"ran"` // shapes that evaluated without a condition
	Hung     string `json:"hung,omitempty"`
}

func eval(src string) (res string, cond bool, fault string) {
	defer func() {
		if r := recover(); r != nil {
			switch r.(type) {
			case *slip.Panic, slip.Object:
				cond = true
			default:
				fault = fmt.Sprint(r)
			}
		}
	}()
	s := slip.NewScope()
	code := slip.ReadString(src, s)
	var v slip.Object
	for _, o := range code {
		v = s.Eval(o, 0)
	}
	return slip.ObjectString(v), false, ""
}

// shapes: argument lists in which EXIT marks where the exit form goes and AFTER the logging form.
var shapes = []string{
	"EXIT AFTER",
	"t EXIT AFTER",
	"1 EXIT AFTER",
	"nil EXIT AFTER",
	"x EXIT AFTER",
	"(x) EXIT AFTER",
	"((x 1)) EXIT AFTER",
	"((y 1) (z 2)) EXIT AFTER",
	"(y l) EXIT AFTER",
	"(y 2) EXIT AFTER",
	"(y) (values 1) EXIT AFTER",
	"(s) EXIT AFTER",
	"(s \"abc\") EXIT AFTER",
	"'(z) '(1) EXIT AFTER",
	"1 (integer EXIT AFTER)",
	"1 (1 EXIT AFTER)",
	"1 (t EXIT AFTER)",
	"(t EXIT AFTER)",
	"(EXIT) AFTER",
	"x EXIT y AFTER",
	"x EXIT",
	"EXIT l",
	"EXIT x",
	"*zz-exits* EXIT",
	"0 EXIT",
	"integer EXIT",
	"m EXIT AFTER",
	"(EXIT AFTER)",
	"((i 0 (1+ i))) ((> i 2) 'done) EXIT AFTER",
	"(EXIT) (AFTER)",
	"EXIT (AFTER)",
}

type shapeRun struct {
	src, want string
}

func shapeRuns(name string) []shapeRun {
	var out []shapeRun
	after := "(setq log (cons 'after log))"
	for _, sh := range shapes {
		for _, kind := range []string{"return", "go"} {
			switch kind {
			case "return":
				exit := "(prog1 (return-from b 'out) (setq log (cons 'exit log)))"
				form := "(" + name + " " + strings.NewReplacer("EXIT", exit, "AFTER", after).Replace(sh) + ")"
				out = append(out, shapeRun{"(let ((log nil) (x 1) (y 2) (l nil) (m (make-mutex))) (list (block b " + form + " (setq log (cons 'fell-through log)) 'end) log))", "(out (exit))"})
			case "go":
				exit := "(prog1 (go end) (setq log (cons 'exit log)))"
				form := "(" + name + " " + strings.NewReplacer("EXIT", exit, "AFTER", after).Replace(sh) + ")"
				out = append(out, shapeRun{"(let ((log nil) (x 1) (y 2) (l nil) (m (make-mutex))) (list (tagbody " + form + " (setq log (cons 'fell-through log)) end) log))", "(nil (exit))"})
			}
		}
	}
	return out
}

// child: evaluate the shapes of one form, one JSON line per event, so that a hang is attributable.
func child(name string) {
	devnull, _ := os.OpenFile("/dev/null", os.O_WRONLY, 0)
	out := os.Stdout
	os.Stdout, os.Stderr = devnull, devnull
	enc := json.NewEncoder(out)
	for i, sr := range shapeRuns(name) {
		_ = enc.Encode(map[string]any{"start": i})
		got, cond, fault := eval(sr.src)
		_ = enc.Encode(map[string]any{"done": i, "got": got, "cond": cond, "fault": fault})
	}
}

func main() {
	if len(os.Args) == 3 && os.Args[1] == "-child" {
		child(os.Args[2])
		return
	}
	var req struct {
		Forms []string `json:"forms"`
	}
	if err := json.NewDecoder(os.Stdin).Decode(&req); err != nil {
		fmt.Fprintln(os.Stderr, err)
		os.Exit(2)
	}
	results := map[string]*Result{}
	var mu sync.Mutex
	var wg sync.WaitGroup
	sem := make(chan struct{}, 12)
	for _, name := range req.Forms {
		name := name
		wg.Add(1)
		sem <- struct{}{}
		go func() {
			defer wg.Done()
			defer func() { <-sem }()
			r := runForm(name)
			mu.Lock()
			results[name] = r
			mu.Unlock()
		}()
	}
	wg.Wait()
	enc := json.NewEncoder(os.Stdout)
	enc.SetIndent("", " ")
	_ = enc.Encode(map[string]any{"results": results})
}

// runForm runs the shapes of one form in a child process; a shape that does not finish within the
// time limit is a failure of its own (the exit never reached its target).
func runForm(name string) *Result {
	r := &Result{}
	runs := shapeRuns(name)
	ctx, cancel := context.WithTimeout(context.Background(), 8*time.Second)
	cmd := exec.CommandContext(ctx, os.Args[0], "-child", name)
	outb, _ := cmd.Output()
	cancel()
	started, finished := -1, -1
	for _, line := range strings.Split(string(outb), "\n") {
		var ev struct {
			Start *int   `json:"start"`
			Done  *int   `json:"done"`
			Got   string `json:"got"`
			Cond  bool   `json:"cond"`
			Fault string `json:"fault"`
		}
		if json.Unmarshal([]byte(line), &ev) != nil {
			continue
		}
		if ev.Start != nil {
			started = *ev.Start
		}
		if ev.Done != nil {
			finished = *ev.Done
			r.Tried++
			if ev.Cond || ev.Fault != "" || !strings.Contains(ev.Got, "exit") {
				continue
			}
			r.Ran++
			if ev.Got != runs[finished].want && !r.Failed {
				r.Failed, r.Input, r.Observed, r.Expected = true, runs[finished].src, ev.Got, runs[finished].want
			}
		}
	}
	if finished < len(runs)-1 && started > finished {
		// the child was killed while evaluating shape `started`: inconclusive (a hang is not evidence about exits)
		r.Tried++
		r.Hung = runs[started].src
	}
	return r
}
