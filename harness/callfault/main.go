// callfault: replay harness of family S (DESIGN Appendix D, `call-fault`).
// Calls the real Call method of built-in functions with small argument tuples
// drawn from a fixed pool and reports Go run-time faults (not slip conditions)
// together with the source position of the faulting instruction.
package main

import (
	"encoding/json"
	"fmt"
	"math/rand"
	"os"
	"reflect"
	"runtime"
	"runtime/debug"
	"sort"
	"strings"
	"time"

	"github.com/ohler55/slip"
	_ "github.com/ohler55/slip/pkg"
)

type Target struct {
	Type  string   `json:"type"`  // Go type of the function object, e.g. "*cl.When"
	Pos   []string `json:"pos"`   // positions (file:line, repo relative) of the failed obligations
	NArgs []int    `json:"nargs"` // argument counts suggested by the models
	Tags  [][]string `json:"tags"` // suggested argument type names per model
}

type Request struct {
	Targets []Target `json:"targets"`
	Seed    int64    `json:"seed"`
	Budget  int      `json:"budget"` // calls per (target, arg count) beyond exhaustive 0..2
	Skip    []string `json:"skip"`
}

type Fault struct {
	Pos   string `json:"pos"`
	Panic string `json:"panic"`
	Args  string `json:"args"`
	Lisp  string `json:"lisp"`
	NArgs int    `json:"nargs"`
}

type Result struct {
	Type   string  `json:"type"`
	Name   string  `json:"name"`
	Status string  `json:"status"` // ok | notfound | hang | skipped
	Calls  int     `json:"calls"`
	Faults []Fault `json:"faults"`
}

var dangerous = map[string]bool{
	"quit": true, "exit": true, "sleep": true, "run-program": true, "delete-file": true, "rename-file": true,
	"shell": true, "system": true, "load": true, "require": true, "ed": true, "break": true, "inspect": true,
	"app-run": true, "repl": true, "read-line": false, "y-or-n-p": true, "yes-or-no-p": true, "save": true,
	"snapshot": true, "watch": true, "swank-server": true, "make-server": true, "ensure-directories-exist": true,
	"delete-directory": true, "with-open-file": true, "open": true, "dribble": true, "room": false, "gc": false,
	"wait": true, "run": true, "time-sleep": true, "channel-pop": true, "channel-push": true, "range": true, "select": true,
	"mutex-lock": true, "with-mutex-lock": false, "benchmark": true, "bench": true, "trace": false,
}

func pool() []slip.Object {
	scope := slip.NewScope()
	var objs []slip.Object
	for _, src := range []string{
		"0", "1", "-1", "3", "100", "123456789012345678901234567890", "2/3", "1.5", "1.5s0", "2.5l0",
		`"abc"`, `""`, "'foo", ":start", ":test", ":key", ":end", ":from-end", ":count", `#\a`,
		"'(1 2 3)", "nil", "t", "'(a . b)", "'((a . 1) (b . 2))", "#(1 2 3)", "(make-hash-table)",
		"(make-string-output-stream)", `(make-string-input-stream "x y")`, "*package*", "(lambda (x) x)", "'car", "#'car",
		"(coerce '(1 2) 'octets)", "#*101", "(make-array '(2 2))", "(find-class 'fixnum)", "(find-class 'vanilla-flavor)", "(now)",
	} {
		func() {
			defer func() { _ = recover() }()
			code := slip.ReadString(src, scope)
			var v slip.Object
			for _, o := range code {
				v = scope.Eval(o, 0)
			}
			objs = append(objs, v)
		}()
	}
	objs = append(objs, slip.Values{}, slip.Values{slip.Fixnum(1), slip.Fixnum(2)})
	return objs
}

func typeName(o slip.Object) string {
	if o == nil {
		return "nil"
	}
	return strings.ReplaceAll(reflect.TypeOf(o).String(), "slip.", "slip.")
}

func posFromStack(stack string) string {
	// first frame inside the module after the panic machinery
	lines := strings.Split(stack, "\n")
	seenPanic := false
	for i := 0; i+1 < len(lines); i++ {
		l := lines[i]
		if strings.HasPrefix(l, "panic(") || strings.HasPrefix(l, "runtime.") {
			seenPanic = true
			continue
		}
		if !seenPanic {
			continue
		}
		if strings.Contains(l, "github.com/ohler55/slip") {
			loc := strings.TrimSpace(lines[i+1])
			if j := strings.Index(loc, " +0x"); j >= 0 {
				loc = loc[:j]
			}
			loc = strings.TrimPrefix(loc, "/repo/")
			return loc
		}
	}
	return ""
}

type callOutcome struct {
	fault bool
	pos   string
	msg   string
}

func callOnce(c slip.Caller, args slip.List) (out callOutcome) {
	defer func() {
		if r := recover(); r != nil {
			switch tr := r.(type) {
			case *slip.Panic:
				return
			case slip.Object:
				_ = tr
				return // slip condition object
			case runtime.Error:
				out.fault = true
				out.msg = tr.Error()
				out.pos = posFromStack(string(debug.Stack()))
			default:
				// explicit Go panic with a non-slip value: not a run-time fault of the kinds under contract
				return
			}
		}
	}()
	s := slip.NewScope()
	_ = c.Call(s, args, 0)
	return
}

func main() {
	var req Request
	if err := json.NewDecoder(os.Stdin).Decode(&req); err != nil {
		fmt.Fprintln(os.Stderr, "bad request:", err)
		os.Exit(2)
	}
	devnull, _ := os.OpenFile("/dev/null", os.O_WRONLY, 0)
	realOut := os.Stdout
	os.Stdout = devnull
	os.Stderr = devnull
	slip.StandardOutput = &slip.OutputStream{Writer: devnull}
	slip.ErrorOutput = &slip.OutputStream{Writer: devnull}
	skip := map[string]bool{}
	for _, s := range req.Skip {
		skip[s] = true
	}
	rng := rand.New(rand.NewSource(req.Seed))
	objs := pool()
	byType := map[string][]*slip.FuncInfo{}
	for _, pkg := range slip.AllPackages() {
		pkg.EachFuncInfo(func(fi *slip.FuncInfo) {
			defer func() { _ = recover() }()
			if fi.Pkg != pkg {
				return
			}
			o := fi.Create(nil)
			byType[reflect.TypeOf(o).String()] = append(byType[reflect.TypeOf(o).String()], fi)
		})
	}
	enc := json.NewEncoder(realOut)
	for _, t := range req.Targets {
		res := Result{Type: t.Type, Status: "ok"}
		fis := byType[t.Type]
		if len(fis) == 0 {
			res.Status = "notfound"
			enc.Encode(res)
			continue
		}
		sort.Slice(fis, func(i, j int) bool { return fis[i].Name < fis[j].Name })
		fi := fis[0]
		res.Name = fi.Name
		if dangerous[fi.Name] || skip[fi.Name] || skip[t.Type] {
			res.Status = "skipped"
			enc.Encode(res)
			continue
		}
		want := map[string]bool{}
		for _, p := range t.Pos {
			want[p] = true
		}
		found := map[string]bool{}
		done := make(chan struct{})
		go func() {
			defer close(done)
			try := func(args slip.List) {
				res.Calls++
				// fresh function object and a copy of the arguments for every call
				c, ok := fi.Create(nil).(slip.Caller)
				if !ok {
					return
				}
				cp := make(slip.List, len(args))
				copy(cp, args)
				o := callOnce(c, cp)
				if o.fault && !found[o.pos] {
					found[o.pos] = true
					var as []string
					for _, a := range args {
						as = append(as, fmt.Sprintf("%s:%s", typeName(a), slip.ObjectString(a)))
					}
					var ls []string
					for _, a := range args {
						ls = append(ls, slip.ObjectString(a))
					}
					res.Faults = append(res.Faults, Fault{Pos: o.pos, Panic: o.msg, Args: strings.Join(as, " | "), NArgs: len(args),
						Lisp: "(" + fi.Name + " " + strings.Join(ls, " ") + ")"})
				}
			}
			allFound := func() bool {
				if len(want) == 0 {
					return false
				}
				for p := range want {
					if !found[p] {
						return false
					}
				}
				return true
			}
			try(slip.List{})
			for _, a := range objs {
				try(slip.List{a})
			}
			if allFound() {
				return
			}
			for _, a := range objs {
				for _, b := range objs {
					try(slip.List{a, b})
				}
			}
			if allFound() {
				return
			}
			budget := req.Budget
			if budget <= 0 {
				budget = 1500
			}
			for n := 3; n <= 5; n++ {
				for k := 0; k < budget; k++ {
					args := make(slip.List, n)
					for i := range args {
						args[i] = objs[rng.Intn(len(objs))]
					}
					try(args)
				}
				if allFound() {
					return
				}
			}
		}()
		select {
		case <-done:
		case <-time.After(20 * time.Second):
			res.Status = "hang"
			enc.Encode(res)
			// cannot stop the goroutine: tell the driver to restart without this target
			os.Exit(3)
		}
		enc.Encode(res)
	}
}
