// Command rfs replays the read-from-string window contract (C02): reading the window start..end of a
// text must give the object and the position that reading the window's own text gives, moved by start.
package main

import (
	"encoding/json"
	"fmt"
	"os"

	"github.com/ohler55/slip"
	_ "github.com/ohler55/slip/pkg"
)

type Failure struct {
	Input    string `json:"input"`
	Observed string `json:"observed"`
	Expected string `json:"expected"`
}

func eval(src string) (res string, bad bool) {
	defer func() {
		if r := recover(); r != nil {
			res, bad = fmt.Sprint(r), true
		}
	}()
	s := slip.NewScope()
	var v slip.Object
	for _, o := range slip.ReadString(src, s) {
		v = s.Eval(o, 0)
	}
	return slip.ObjectString(v), false
}

func main() {
	devnull, _ := os.OpenFile("/dev/null", os.O_WRONLY, 0)
	out := os.Stdout
	os.Stdout, os.Stderr = devnull, devnull
	var fails []Failure
	texts := []string{"x 123 y", "xx 12  34", "ab (1 2)   c", "  foo   bar ", "q \"s t\"  z", "aaaa 7\t\n 8"}
	for _, text := range texts {
		for start := 0; start < len(text); start++ {
			for end := start + 1; end <= len(text); end++ {
				whole := fmt.Sprintf("(multiple-value-list (read-from-string %q nil 'eof :start %d :end %d))", text, start, end)
				part := fmt.Sprintf("(let ((r (multiple-value-list (read-from-string %q nil 'eof)))) (list (car r) (+ %d (cadr r))))", text[start:end], start)
				got, bad1 := eval(whole)
				want, bad2 := eval(part)
				if bad1 || bad2 {
					continue
				}
				if got != want && len(fails) < 5 {
					fails = append(fails, Failure{whole, got, want})
				}
			}
		}
	}
	os.Stdout = out
	enc := json.NewEncoder(out)
	enc.SetIndent("", " ")
	_ = enc.Encode(map[string]any{"failures": fails})
}
