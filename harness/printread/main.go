// printread: replay harness of C03 (DESIGN Appendix D, `print-read`): print an
// object readably with the real printer, read the text back with the real
// reader, compare.
package main

import (
	"encoding/json"
	"fmt"
	"os"
	"unicode/utf8"

	"github.com/ohler55/slip"
	_ "github.com/ohler55/slip/pkg"
)

type Request struct {
	SymbolBytes []int `json:"symbol_bytes"` // byte values to embed in a symbol name
	Integers    bool  `json:"integers"`     // fixnum/bignum x base 2..36 x radix on/off, printer variables bound by let
}
type Failure struct {
	Kind   string `json:"kind"`
	Byte   int    `json:"byte,omitempty"`
	Input  string `json:"input"`
	Text   string `json:"text"`
	Result string `json:"result"`
}

func eval(s *slip.Scope, src string) (res slip.Object, err string) {
	defer func() {
		if r := recover(); r != nil {
			err = fmt.Sprint(r)
			if p, ok := r.(*slip.Panic); ok {
				err = p.Message
			}
		}
	}()
	for _, o := range slip.ReadString(src, s) {
		res = s.Eval(o, 0)
	}
	return
}

// nameWith returns valid UTF-8 symbol names that contain byte b.
func nameWith(b int) []string {
	if b < 0x80 {
		return []string{string([]byte{byte(b)}), "a" + string([]byte{byte(b)}) + "b"}
	}
	var out []string
	switch {
	case b >= 0x80 && b <= 0xbf:
		out = append(out, string([]byte{0xc3, byte(b)}))
	case b >= 0xc2 && b <= 0xdf:
		out = append(out, string([]byte{byte(b), 0x80}))
	case b >= 0xe1 && b <= 0xec:
		out = append(out, string([]byte{byte(b), 0x80, 0x80}))
	case b >= 0xf1 && b <= 0xf3:
		out = append(out, string([]byte{byte(b), 0x80, 0x80, 0x80}))
	}
	var ok []string
	for _, s := range out {
		if utf8.ValidString(s) {
			ok = append(ok, s, "a"+s+"b")
		}
	}
	return ok
}

func main() {
	var req Request
	if err := json.NewDecoder(os.Stdin).Decode(&req); err != nil {
		os.Exit(2)
	}
	devnull, _ := os.OpenFile("/dev/null", os.O_WRONLY, 0)
	realOut := os.Stdout
	os.Stdout, os.Stderr = devnull, devnull
	var fails []Failure
	for _, b := range req.SymbolBytes {
		for _, name := range nameWith(b) {
			s := slip.NewScope()
			s.Let(slip.Symbol("x"), slip.String(name))
			txt, e1 := eval(s, `(prin1-to-string (intern x))`)
			if e1 != "" {
				fails = append(fails, Failure{"symbol", b, fmt.Sprintf("%q", name), "", "print failed: " + e1})
				break
			}
			s.Let(slip.Symbol("txt"), txt)
			r, e2 := eval(s, `(let ((back (read-from-string txt))) (and (symbolp back) (string= (symbol-name back) (symbol-name (intern x)))))`)
			if e2 != "" || r == nil {
				fails = append(fails, Failure{"symbol", b, fmt.Sprintf("(intern %q)", name), slip.ObjectString(txt), "read back: " + slip.ObjectString(r) + " " + e2})
				break
			}
		}
	}
	if req.Integers {
		for _, n := range []string{"0", "5", "-5", "255", "123456789", "-9223372036854775808", "9223372036854775807", "12345678901234567890123", "-340282366920938463463374607431768211456"} {
			for base := 2; base <= 36; base++ {
				for _, radix := range []string{"nil", "t"} {
					s := slip.NewScope()
					src := fmt.Sprintf(`(let ((*print-base* %d) (*print-radix* %s)) (let ((txt (prin1-to-string %s))) (list txt (let ((*read-base* %d)) (read-from-string txt)))))`, base, radix, n, base)
					if radix == "t" {
						src = fmt.Sprintf(`(let ((*print-base* %d) (*print-radix* t)) (let ((txt (prin1-to-string %s))) (list txt (read-from-string txt))))`, base, n)
					}
					r, e := eval(s, src)
					l, _ := r.(slip.List)
					if e != "" || len(l) != 2 || slip.ObjectString(l[1]) != n {
						fails = append(fails, Failure{"integer", 0, fmt.Sprintf("%s base %d radix %s", n, base, radix), slip.ObjectString(r), e})
					}
				}
			}
		}
	}
	_ = json.NewEncoder(realOut).Encode(map[string]any{"failures": fails})
}
