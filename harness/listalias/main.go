// listalias: replay harness of family M (DESIGN Appendix D, `list-alias`).
// Calls the real Call method of list built-ins on lists that have spare
// capacity and a second reference, then checks (M1) that no argument list
// changed and (M2) that a returned list does not share storage with an
// argument unless it is a true tail view of it.
package main

import (
	"encoding/json"
	"fmt"
	"os"
	"reflect"
	"strings"
	"time"
	"unsafe"

	"github.com/ohler55/slip"
	_ "github.com/ohler55/slip/pkg"
)

type Target struct {
	Type string `json:"type"`
	Mode string `json:"mode"` // fresh | fresh-or-tail | nowrite
}
type Failure struct {
	Kind string `json:"kind"` // arg-modified | result-aliases-arg | later-write-visible
	Lisp string `json:"lisp"`
	Note string `json:"note"`
}
type Result struct {
	Type     string    `json:"type"`
	Name     string    `json:"name"`
	Status   string    `json:"status"`
	Calls    int       `json:"calls"`
	Failures []Failure `json:"failures"`
}

func mkList(vals ...int) slip.List {
	l := make(slip.List, len(vals), len(vals)+5)
	for i, v := range vals {
		l[i] = slip.Fixnum(v)
	}
	// poison the spare capacity so that writes into it are visible
	full := l[:cap(l)]
	for i := len(vals); i < len(full); i++ {
		full[i] = slip.Symbol("spare")
	}
	return l
}

func snapshot(l slip.List) []string {
	full := l[:cap(l)]
	out := make([]string, len(full))
	for i, v := range full {
		out[i] = slip.ObjectString(v)
	}
	return out
}

func span(l slip.List) (lo, hi uintptr) {
	if cap(l) == 0 {
		return 0, 0
	}
	full := l[:cap(l)]
	lo = uintptr(unsafe.Pointer(&full[0]))
	hi = lo + uintptr(cap(l))*unsafe.Sizeof(full[0])
	return
}

func call(c slip.Caller, args slip.List) (res slip.Object, ok bool) {
	defer func() {
		if r := recover(); r != nil {
			ok = false
		}
	}()
	return c.Call(slip.NewScope(), args, 0), true
}

func main() {
	var targets []Target
	if err := json.NewDecoder(os.Stdin).Decode(&targets); err != nil {
		os.Exit(2)
	}
	devnull, _ := os.OpenFile("/dev/null", os.O_WRONLY, 0)
	realOut := os.Stdout
	os.Stdout, os.Stderr = devnull, devnull
	byType := map[string]*slip.FuncInfo{}
	for _, pkg := range slip.AllPackages() {
		pkg.EachFuncInfo(func(fi *slip.FuncInfo) {
			defer func() { _ = recover() }()
			if fi.Pkg != pkg {
				return
			}
			tn := reflect.TypeOf(fi.Create(nil)).String()
			if old, ok := byType[tn]; !ok || fi.Name < old.Name {
				byType[tn] = fi
			}
		})
	}
	scope := slip.NewScope()
	fnObj := func(src string) slip.Object {
		code := slip.ReadString(src, scope)
		return scope.Eval(code[0], 0)
	}
	identity := fnObj("(lambda (x) x)")
	evenp := fnObj("(lambda (x) (and (integerp x) (evenp x)))")
	list2 := fnObj("(lambda (x y) (list x y))")
	enc := json.NewEncoder(realOut)
	for _, t := range targets {
		res := Result{Type: t.Type, Status: "ok"}
		fi := byType[t.Type]
		if fi == nil {
			res.Status = "notfound"
			enc.Encode(res)
			continue
		}
		res.Name = fi.Name
		done := make(chan struct{})
		go func() {
			defer close(done)
			seen := map[string]bool{}
			// argument generators: each returns a fresh argument vector
			gens := []func() slip.List{
				func() slip.List { return slip.List{mkList(1, 2, 3, 2, 4)} },
				func() slip.List { return slip.List{mkList(1, 2, 3), mkList(4, 5)} },
				func() slip.List { return slip.List{mkList(1, 2, 3), mkList(4, 5), mkList(6)} },
				func() slip.List { return slip.List{mkList(1, 2, 3), nil} },
				func() slip.List { return slip.List{nil, mkList(1, 2, 3)} },
				func() slip.List { return slip.List{slip.Fixnum(2), mkList(1, 2, 3, 2, 4)} },
				func() slip.List { return slip.List{slip.Fixnum(1), mkList(1, 2, 3, 2, 4)} },
				func() slip.List { return slip.List{mkList(1, 2, 3, 2, 4), slip.Fixnum(1)} },
				func() slip.List { return slip.List{mkList(1, 2, 3, 2, 4), slip.Fixnum(2)} },
				func() slip.List { return slip.List{mkList(1, 2, 3, 2, 4), slip.Fixnum(1), slip.Fixnum(3)} },
				func() slip.List { return slip.List{slip.Fixnum(2), mkList(1, 2, 3, 2, 4), slip.Symbol(":start"), slip.Fixnum(2)} },
				func() slip.List { return slip.List{slip.Fixnum(2), mkList(1, 2, 3, 2, 4), slip.Symbol(":count"), slip.Fixnum(1)} },
				func() slip.List { return slip.List{slip.Fixnum(2), mkList(1, 2, 3, 2, 4), slip.Symbol(":from-end"), slip.True} },
				func() slip.List { return slip.List{evenp, mkList(1, 2, 3, 2, 4)} },
				func() slip.List { return slip.List{evenp, mkList(1, 2, 3, 2, 4), slip.Symbol(":start"), slip.Fixnum(2)} },
				func() slip.List { return slip.List{identity, mkList(1, 2, 3)} },
				func() slip.List { return slip.List{list2, mkList(1, 2, 3), mkList(4, 5, 6)} },
				func() slip.List { return slip.List{slip.Fixnum(9), slip.Fixnum(2), mkList(1, 2, 3, 2, 4)} },
				func() slip.List { return slip.List{slip.Fixnum(7), mkList(1, 2, 3)} },
				func() slip.List { return slip.List{slip.Fixnum(7), slip.Fixnum(8), mkList(1, 2, 3)} },
			}
			for _, g := range gens {
				args := g()
				keep := make(slip.List, len(args))
				copy(keep, args)
				var snaps [][]string
				for _, a := range keep {
					if l, ok := a.(slip.List); ok {
						snaps = append(snaps, snapshot(l))
					} else {
						snaps = append(snaps, nil)
					}
				}
				c, ok := fi.Create(nil).(slip.Caller)
				if !ok {
					return
				}
				lisp := "(" + fi.Name
				for _, a := range keep {
					lisp += " " + slip.ObjectString(a)
				}
				lisp += ")   ; list arguments have 5 spare slots of capacity"
				r, ok := call(c, args)
				res.Calls++
				if !ok {
					continue
				}
				report := func(kind, note string) {
					if !seen[kind] {
						seen[kind] = true
						res.Failures = append(res.Failures, Failure{kind, lisp, note})
					}
				}
				for i, a := range keep {
					if l, ok := a.(slip.List); ok {
						now := snapshot(l)
						if strings.Join(now, " ") != strings.Join(snaps[i], " ") {
							report("arg-modified", fmt.Sprintf("argument %d was %v, is now %v", i, snaps[i], now))
						}
					}
				}
				rl, isList := r.(slip.List)
				if !isList || len(rl) == 0 || t.Mode == "nowrite" {
					continue
				}
				rlo, rhi := span(rl)
				for i, a := range keep {
					l, ok := a.(slip.List)
					if !ok || cap(l) == 0 {
						continue
					}
					alo, ahi := span(l)
					if rhi <= alo || ahi <= rlo {
						continue
					}
					// shares storage: allowed only as a true tail view in tail mode
					if t.Mode == "fresh-or-tail" {
						rEnd := uintptr(unsafe.Pointer(&rl[0])) + uintptr(len(rl))*unsafe.Sizeof(rl[0])
						aEnd := uintptr(unsafe.Pointer(&l[0])) + uintptr(len(l))*unsafe.Sizeof(l[0])
						if rEnd == aEnd && uintptr(unsafe.Pointer(&rl[0])) >= uintptr(unsafe.Pointer(&l[0])) {
							continue
						}
					}
					report("result-aliases-arg", fmt.Sprintf("result %s shares storage with argument %d and is not a tail of it", slip.ObjectString(r), i))
				}
			}
		}()
		select {
		case <-done:
		case <-time.After(10 * time.Second):
			res.Status = "hang"
			enc.Encode(res)
			os.Exit(3)
		}
		enc.Encode(res)
	}
}
