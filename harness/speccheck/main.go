// Command speccheck replays contract refutations of functions that have no dedicated harness: for the root
// functions named on stdin it evaluates the Lisp inputs listed for them in /verif/harness/speccheck/cases.json
// (each with the result the language definition requires) on the real code and reports the first one whose
// result differs.
//
// stdin: {"roots": ["cl.(*Mismatch).Call", ...]}   stdout: {"results": {root: {failed, input, observed, expected}}}
package main

import (
	"encoding/json"
	"fmt"
	"os"
	"path/filepath"

	"github.com/ohler55/slip"
	_ "github.com/ohler55/slip/pkg"
)

type Case struct {
	Input  string `json:"input"`
	Expect string `json:"expect"`
}

type Result struct {
	Failed   bool   `json:"failed"`
	Input    string `json:"input,omitempty"`
	Observed string `json:"observed,omitempty"`
	Expected string `json:"expected,omitempty"`
	Ran      int    `json:"ran"`
}

func eval(src string) (res string) {
	defer func() {
		if r := recover(); r != nil {
			res = fmt.Sprintf("#<raised %v>", r)
		}
	}()
	s := slip.NewScope()
	var v slip.Object
	for _, o := range slip.ReadString(src, s) {
		v = s.Eval(o, 0)
	}
	return slip.ObjectString(v)
}

func main() {
	var req struct {
		Roots []string `json:"roots"`
		Cases string   `json:"cases"`
	}
	if err := json.NewDecoder(os.Stdin).Decode(&req); err != nil {
		fmt.Fprintln(os.Stderr, err)
		os.Exit(2)
	}
	if req.Cases == "" {
		exe, _ := os.Executable()
		req.Cases = filepath.Join(filepath.Dir(filepath.Dir(exe)), "harness", "speccheck", "cases.json")
	}
	b, err := os.ReadFile(req.Cases)
	if err != nil {
		fmt.Fprintln(os.Stderr, err)
		os.Exit(2)
	}
	var cases map[string][]Case
	if err := json.Unmarshal(b, &cases); err != nil {
		fmt.Fprintln(os.Stderr, err)
		os.Exit(2)
	}
	devnull, _ := os.OpenFile("/dev/null", os.O_WRONLY, 0)
	out := os.Stdout
	os.Stdout, os.Stderr = devnull, devnull
	results := map[string]*Result{}
	for _, root := range req.Roots {
		r := &Result{}
		results[root] = r
		for _, c := range cases[root] {
			r.Ran++
			got := eval(c.Input)
			if got != c.Expect && !r.Failed {
				r.Failed, r.Input, r.Observed, r.Expected = true, c.Input, got, c.Expect
			}
		}
	}
	os.Stdout = out
	enc := json.NewEncoder(out)
	enc.SetIndent("", " ")
	_ = enc.Encode(map[string]any{"results": results})
}
