// Demonstration for the C11 defect "a method defined on a component after the inheriting flavor exists is put
// behind the methods of every other component, whatever the precedence order": copy to /repo/test/flavors and run
// `go test -run TestVerifInsertPosition ./test/flavors/`.
package flavors_test

import (
	"testing"

	"github.com/ohler55/slip/sliptest"
)

func TestVerifInsertPositionLate(t *testing.T) {
	defer undefFlavors("zzpc", "zzpa", "zzpb")
	(&sliptest.Function{
		Source: `(progn
                   (defvar zz-ip-log nil)
                   (defflavor zzpa () ())
                   (defflavor zzpb () ())
                   (defflavor zzpc () (zzpa zzpb))
                   (defmethod (zzpc :m) () nil)
                   (defmethod (zzpb :before :m) () (setq zz-ip-log (cons 'pb zz-ip-log)))
                   (defmethod (zzpa :before :m) () (setq zz-ip-log (cons 'pa zz-ip-log)))
                   (setq zz-ip-log nil)
                   (send (make-instance 'zzpc) :m)
                   (reverse zz-ip-log))`,
		Expect: "(pa pb)",
	}).Test(t)
}

func TestVerifInsertPositionEarly(t *testing.T) {
	defer undefFlavors("zzqc", "zzqa", "zzqb")
	(&sliptest.Function{
		Source: `(progn
                   (defvar zz-iq-log nil)
                   (defflavor zzqa () ())
                   (defflavor zzqb () ())
                   (defmethod (zzqb :before :m) () (setq zz-iq-log (cons 'pb zz-iq-log)))
                   (defmethod (zzqa :before :m) () (setq zz-iq-log (cons 'pa zz-iq-log)))
                   (defflavor zzqc () (zzqa zzqb))
                   (defmethod (zzqc :m) () nil)
                   (setq zz-iq-log nil)
                   (send (make-instance 'zzqc) :m)
                   (reverse zz-iq-log))`,
		Expect: "(pa pb)",
	}).Test(t)
}
