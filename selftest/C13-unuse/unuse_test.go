package cl_test

import (
	"testing"

	"github.com/ohler55/slip"
	"github.com/ohler55/slip/sliptest"
)

func TestZZUnuseKeepsOwn(t *testing.T) {
	orig := slip.CurrentPackage
	defer func() {
		scope := slip.NewScope()
		slip.CurrentPackage = orig
		scope.Set("*package*", orig)
		slip.RemovePackage(slip.FindPackage("uu2"))
		slip.RemovePackage(slip.FindPackage("uu3"))
		slip.RemovePackage(slip.FindPackage("uu1"))
	}()
	(&sliptest.Function{
		Source: `(let ((p1 (make-package 'uu1 :use '(cl)))
                       (p2 (make-package 'uu2 :use '(cl gi)))
                       (p3 (make-package 'uu3 :use '(cl)))
                       result)
                  (in-package p1)
                  (defvar quux1 1)
                  (defvar priv1 7)
                  (export 'quux1)
                  (in-package p2)
                  (defvar own2 5)
                  (defun f2 () 9)
                  (use-package p1 p2)
                  (unuse-package p1 p2)
                  (addf result (boundp 'own2))
                  (addf result (fboundp 'f2))
                  (addf result (boundp 'quux1))
                  (addf result (boundp 'priv1))
                  (use-package p1 p2)
                  (use-package p3 p2)
                  (unuse-package p3 p2)
                  (addf result (boundp 'own2))
                  (addf result (boundp 'quux1))
                  (addf result (boundp 'priv1))
                  result)`,
		Expect: "(t t nil nil t t nil)",
	}).Test(t)
}
