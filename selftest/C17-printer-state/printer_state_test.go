// Demonstration for the C17 defect "disassemble / bag-write change the process-wide printer":
// copy to /repo/test/cl and run `go test -run TestVerifPrinterState ./test/cl/`.
package cl_test

import (
	"testing"

	"github.com/ohler55/slip"
	"github.com/ohler55/slip/sliptest"
)

func TestVerifPrinterStateDisassemble(t *testing.T) {
	// printing a lambda under a let-bound *print-base* must not change how later, unrelated
	// printing behaves once the let is left
	(&sliptest.Function{
		Source: `(progn
                   (with-output-to-string (*standard-output*)
                     (let ((*print-base* 16)) (disassemble (lambda (x) (+ x 255)))))
                   (princ-to-string 255))`,
		Expect: `"255"`,
	}).Test(t)
	if slip.DefaultPrinter().Base != 10 {
		t.Fatalf("the process-wide printer was left with base %d", slip.DefaultPrinter().Base)
	}
}

func TestVerifPrinterStateBagWrite(t *testing.T) {
	(&sliptest.Function{
		Source: `(progn
                   (let ((*print-right-margin* 20)) (bag-write (make-bag "{a:1}") nil))
                   (princ-to-string 255))`,
		Expect: `"255"`,
	}).Test(t)
	if slip.DefaultPrinter().RightMargin == 20 {
		t.Fatalf("the process-wide printer was left with right margin %d", slip.DefaultPrinter().RightMargin)
	}
}
