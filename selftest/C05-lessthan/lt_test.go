package test

import (
	"math/big"
	"testing"

	"github.com/ohler55/slip"
)

// LessThan is irreflexive on every representation.
func TestZZLessThanEqualOperands(t *testing.T) {
	b := big.NewInt(1)
	b.Lsh(b, 70)
	if slip.LessThan((*slip.Bignum)(b), (*slip.Bignum)(new(big.Int).Set(b))) {
		t.Fatal("2^70 < 2^70")
	}
	if slip.LessThan((*slip.Ratio)(big.NewRat(1, 3)), (*slip.Ratio)(big.NewRat(1, 3))) {
		t.Fatal("1/3 < 1/3")
	}
	if !slip.LessThan((*slip.Ratio)(big.NewRat(1, 3)), (*slip.Ratio)(big.NewRat(1, 2))) {
		t.Fatal("not 1/3 < 1/2")
	}
}
