// Demonstration for the C19 defect "snapshot orders the flavors with a comparison that is not an ordering (and starts
// from map order): a flavor can be written before a flavor it is built from": copy to /repo/test/gi and run
// `go test -run TestVerifSnapshotFlavorOrder ./test/gi/`.
package gi_test

import (
	"fmt"
	"strings"
	"testing"

	"github.com/ohler55/slip/sliptest"
)

func TestVerifSnapshotFlavorOrder(t *testing.T) {
	var defs, checks strings.Builder
	for n := 1; n <= 8; n++ {
		fmt.Fprintf(&defs, "(defflavor zzo-z-base%d () ())\n(defflavor zzo-m-other%d () ())\n", n, n)
		fmt.Fprintf(&defs, "(defflavor zzo-k-mid%d () (zzo-z-base%d))\n(defflavor zzo-a-kid%d () (zzo-k-mid%d))\n", n, n, n, n)
		fmt.Fprintf(&checks, `(unless (and (< (search "(defflavor zzo-z-base%d" text) (search "(defflavor zzo-k-mid%d" text))
                                         (< (search "(defflavor zzo-k-mid%d" text) (search "(defflavor zzo-a-kid%d" text)))
                                (setq ok nil))
`, n, n, n, n)
	}
	(&sliptest.Function{
		Source: fmt.Sprintf(`(progn %s (let ((text (snapshot nil)) (ok t)) %s ok))`, defs.String(), checks.String()),
		Expect: "t",
	}).Test(t)
}
