// Demonstration for the C08 defect "a caller compiled after the first redefinition of a function does not see
// the next one": copy to /repo/test/cl and run `go test -run TestVerifDefunThrice ./test/cl/`.
package cl_test

import (
	"testing"

	"github.com/ohler55/slip/sliptest"
)

func TestVerifDefunThrice(t *testing.T) {
	(&sliptest.Function{
		Source: `(progn (defun zz-f3 () 1) (defun zz-f3 () 2) (defun zz-g3 () (zz-f3)) (defun zz-f3 () 3) (zz-g3))`,
		Expect: "3",
	}).Test(t)
}

func TestVerifDefunThriceFirstCallerToo(t *testing.T) {
	(&sliptest.Function{
		Source: `(progn (defun zz-f4 () 1) (defun zz-g4 () (zz-f4)) (defun zz-f4 () 2) (defun zz-h4 () (zz-f4)) (defun zz-f4 () 3)
                        (list (zz-g4) (zz-h4) (zz-f4)))`,
		Expect: "(3 3 3)",
	}).Test(t)
}

func TestVerifDefmacroThrice(t *testing.T) {
	(&sliptest.Function{
		Source: `(progn (defmacro zz-m3 () 1) (defmacro zz-m3 () 2) (defun zz-gm3 () (zz-m3)) (defmacro zz-m3 () 3) (zz-gm3))`,
		Expect: "3",
	}).Test(t)
}
