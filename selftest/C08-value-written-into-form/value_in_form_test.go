// Demonstration for the C08 defect "with-input-from-octets, with-zip-reader and with-zip-writer write the evaluated
// value into their own source form": copy to /repo/test/gi and run `go test -run TestVerifWith ./test/gi/`.
package gi_test

import (
	"testing"

	"github.com/ohler55/slip/sliptest"
)

func TestVerifWithInputFromOctetsTwice(t *testing.T) {
	(&sliptest.Function{
		Source: `(progn
                   (defun zz-rd (o) (with-input-from-octets (s o) (read-byte s)))
                   (list (zz-rd (coerce '(65 66) 'octets)) (zz-rd (coerce '(67 68) 'octets))))`,
		Expect: "(65 67)",
	}).Test(t)
}

func TestVerifWithZipTwice(t *testing.T) {
	(&sliptest.Function{
		Source: `(progn
                   (defun zz-zip (text)
                     (let ((out (make-string-output-stream)))
                       (with-zip-writer (z out) (write-string text z))
                       (let ((in (make-string-input-stream (get-output-stream-string out))))
                         (with-zip-reader (r in) (read-line r)))))
                   (list (zz-zip "first") (zz-zip "second")))`,
		Expect: `("first" "second")`,
	}).Test(t)
}
