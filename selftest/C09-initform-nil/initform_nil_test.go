// Demonstration for the C09 / C12 defect "a slot with :initform nil makes make-instance fault with a Go nil
// pointer dereference": copy to /repo/test/clos and run `go test -run TestVerifInitformNil ./test/clos/`.
package clos_test

import (
	"testing"

	"github.com/ohler55/slip/sliptest"
)

func TestVerifInitformNil(t *testing.T) {
	(&sliptest.Function{
		Source: `(progn
                   (defclass zz-pn () ((x :initform nil :reader zz-pn-x) (y :initform 3 :reader zz-pn-y)))
                   (let ((i (make-instance 'zz-pn))) (list (zz-pn-x i) (zz-pn-y i))))`,
		Expect: "(nil 3)",
	}).Test(t)
}
