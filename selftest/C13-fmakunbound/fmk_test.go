package cl_test

import (
	"testing"

	"github.com/ohler55/slip"
	"github.com/ohler55/slip/sliptest"
)

// fmakunbound of an exported function withdraws it from the packages that use its package.
func TestZZFmakunboundReachesUsers(t *testing.T) {
	orig := slip.CurrentPackage
	defer func() {
		scope := slip.NewScope()
		slip.CurrentPackage = orig
		scope.Set("*package*", orig)
		slip.RemovePackage(slip.FindPackage("fm2"))
		slip.RemovePackage(slip.FindPackage("fm1"))
	}()
	(&sliptest.Function{
		Source: `(let ((p1 (make-package 'fm1 :use '(cl)))
                       (p2 (make-package 'fm2 :use '(cl gi)))
                       result)
                  (in-package p1)
                  (defun shared-fun () 1)
                  (export 'shared-fun)
                  (in-package p2)
                  (use-package p1 p2)
                  (addf result (fboundp 'shared-fun))
                  (in-package p1)
                  (fmakunbound 'shared-fun)
                  (in-package p2)
                  (addf result (fboundp 'shared-fun))
                  result)`,
		Expect: "(t nil)",
	}).Test(t)
}
