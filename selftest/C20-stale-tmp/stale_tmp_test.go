package repl

import (
	"fmt"
	"os"
	"path/filepath"
	"testing"

	"github.com/ohler55/slip/pkg/repl"
)

// A death during compaction leaves history.tmp behind. The next compaction must not
// carry its content into the history.
func TestVerifStaleTmp(t *testing.T) {
	dir := t.TempDir()
	filename := filepath.Join(dir, "history")
	if err := os.WriteFile(filename+".tmp", []byte("(stale 1)\n(stale 2)\n"), 0644); err != nil {
		t.Fatal(err)
	}
	var h repl.History
	h.SetLimit(10)
	h.Load(filename)
	for i := 0; i < 11; i++ {
		h.Add(repl.NewForm([]byte(fmt.Sprintf("(entry %d)", i))))
	}
	var h2 repl.History
	h2.SetLimit(10)
	h2.Load(filename)
	if got := h2.Size(); got != 10 {
		t.Fatalf("restart loaded %d forms, session has %d: %s", got, h.Size(), h2.Append(nil, false, false, true, 0, -1))
	}
}
