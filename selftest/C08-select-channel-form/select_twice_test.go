// Demonstration for the C08 / C17 defect "select stores the evaluated channel into its own clause, so the next
// evaluation of the same select form waits on the first call's channel": copy to /repo/test/gi and run
// `go test -run TestVerifSelectTwice ./test/gi/`.
package gi_test

import (
	"testing"

	"github.com/ohler55/slip/sliptest"
)

func TestVerifSelectTwice(t *testing.T) {
	(&sliptest.Function{
		Source: `(progn
                   (defun zz-sel (ch) (select (ch x x) ((time-after 0.2) y 'timeout)))
                   (let ((a (make-channel 1)) (b (make-channel 1)))
                     (channel-push a 1)
                     (channel-push b 2)
                     (list (zz-sel a) (zz-sel b))))`,
		Expect: "(1 2)",
	}).Test(t)
}
