package generic_test

import (
	"testing"

	"github.com/ohler55/slip"
	"github.com/ohler55/slip/sliptest"
)

// A generic function dispatches on the class precedence as it is now: redefining a class with another
// superclass takes effect on the very next call, also for argument classes that were dispatched before.
func TestZZDispatchAfterClassRedefinition(t *testing.T) {
	for _, n := range []string{"zka", "zkb", "zkc", "zgg"} {
		slip.CurrentPackage.Remove(n)
	}
	(&sliptest.Function{
		Source: `(progn
  (defclass zka () ())
  (defclass zkb () ())
  (defclass zkc (zka) ())
  (defgeneric zgg (x))
  (defmethod zgg ((x zka)) 'from-a)
  (defmethod zgg ((x zkb)) 'from-b)
  (let ((first (zgg (make-instance 'zkc))))
    (defclass zkc (zkb) ())
    (list first (zgg (make-instance 'zkc)))))`,
		Expect: "(from-a from-b)",
	}).Test(t)
}
