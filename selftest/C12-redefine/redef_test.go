package clos_test

import (
	"fmt"
	"testing"

	"github.com/ohler55/slip"
	"github.com/ohler55/slip/sliptest"
)

// Redefining a class is reflected in its subclasses at every depth, whatever order the class table is walked in.
func TestZZRedefineReachesGrandchildren(t *testing.T) {
	for i := 0; i < 24; i++ {
		a, b, c, d := fmt.Sprintf("zza%d", i), fmt.Sprintf("zzb%d", i), fmt.Sprintf("zzc%d", i), fmt.Sprintf("zzd%d", i)
		for _, n := range []string{a, b, c, d} {
			slip.CurrentPackage.Remove(n)
		}
		(&sliptest.Function{
			Source: fmt.Sprintf(`(progn
  (defclass %[1]s () ((x :initform 1 :initarg :x)))
  (defclass %[2]s (%[1]s) ())
  (defclass %[3]s (%[2]s) ())
  (defclass %[4]s (%[3]s) ())
  (defclass %[1]s () ((x :initform 1 :initarg :x) (y :initform 2 :initarg :y)))
  (list (slot-value (make-instance '%[2]s) 'y)
        (slot-value (make-instance '%[3]s) 'y)
        (slot-value (make-instance '%[4]s) 'y)))`, a, b, c, d),
			Expect: "(2 2 2)",
		}).Test(t)
	}
}
