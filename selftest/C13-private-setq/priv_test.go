package cl_test

import (
	"testing"

	"github.com/ohler55/slip"
	"github.com/ohler55/slip/sliptest"
)

// A private variable of a used package never becomes visible in the using package, however often it is set.
func TestZZPrivateSetqStaysPrivate(t *testing.T) {
	orig := slip.CurrentPackage
	defer func() {
		scope := slip.NewScope()
		slip.CurrentPackage = orig
		scope.Set("*package*", orig)
		slip.RemovePackage(slip.FindPackage("pv2"))
		slip.RemovePackage(slip.FindPackage("pv1"))
	}()
	(&sliptest.Function{
		Source: `(let ((p1 (make-package 'pv1 :use '(cl)))
                       (p2 (make-package 'pv2 :use '(cl gi)))
                       result)
                  (use-package p1 p2)
                  (in-package p1)
                  (defvar secret 1)
                  (setq secret 2)
                  (setq secret 3)
                  (in-package p2)
                  (addf result (boundp 'secret))
                  result)`,
		Expect: "(nil)",
	}).Test(t)
}

// use-package does not replace a definition the using package already has.
func TestZZUseKeepsOwn(t *testing.T) {
	orig := slip.CurrentPackage
	defer func() {
		scope := slip.NewScope()
		slip.CurrentPackage = orig
		scope.Set("*package*", orig)
		slip.RemovePackage(slip.FindPackage("pv4"))
		slip.RemovePackage(slip.FindPackage("pv3"))
	}()
	(&sliptest.Function{
		Source: `(let ((p1 (make-package 'pv3 :use '(cl)))
                       (p2 (make-package 'pv4 :use '(cl gi)))
                       result)
                  (in-package p1)
                  (defvar shared 1)
                  (export 'shared)
                  (in-package p2)
                  (defvar shared 2)
                  (use-package p1 p2)
                  (addf result shared)
                  result)`,
		Expect: "(2)",
	}).Test(t)
}
