// Demonstration for the C07 defect "tagbody / prog / prog* evaluate a tag when control falls through it":
// copy to /repo/test/cl and run `go test -run TestVerifTags ./test/cl/`.
package cl_test

import (
	"testing"

	"github.com/ohler55/slip/sliptest"
)

func TestVerifTagsTagbodyFallThrough(t *testing.T) {
	(&sliptest.Function{
		Source: `(let ((x 0)) (tagbody (setq x 1) skip (setq x (1+ x))) x)`,
		Expect: "2",
	}).Test(t)
}

func TestVerifTagsProgFallThrough(t *testing.T) {
	(&sliptest.Function{
		Source: `(prog ((x 0)) (setq x 1) skip (setq x (1+ x)) (return x))`,
		Expect: "2",
	}).Test(t)
}

func TestVerifTagsProgxFallThrough(t *testing.T) {
	(&sliptest.Function{
		Source: `(prog* ((x 0) (y x)) (setq x 1) skip (setq x (+ x y 1)) (return x))`,
		Expect: "2",
	}).Test(t)
}

func TestVerifTagsGoStillWorks(t *testing.T) {
	(&sliptest.Function{
		Source: `(let ((x 0)) (tagbody (setq x 1) (go skip) (setq x 10) skip (setq x (1+ x))) x)`,
		Expect: "2",
	}).Test(t)
}
