// Demonstration for the C19 defect "snapshot writes a symbol that is the value of a variable or constant (and the
// list value of a constant) unquoted, so loading the snapshot evaluates it": copy to /repo/test/gi and run
// `go test -run TestVerifSnapshotSymbolValue ./test/gi/`.
package gi_test

import (
	"testing"

	"github.com/ohler55/slip/sliptest"
)

func TestVerifSnapshotSymbolValue(t *testing.T) {
	(&sliptest.Function{
		Source: `(progn (defvar zz-snap-sym 'abc) (snapshot nil))`,
		Expect: `/\(setq common-lisp-user::zz-snap-sym 'abc\)/`,
	}).Test(t)
}

func TestVerifSnapshotConstantValues(t *testing.T) {
	(&sliptest.Function{
		Source: `(progn (defconstant zz-snap-csym 'abc) (defconstant zz-snap-clist '(a b)) (snapshot nil))`,
		Expect: `/\(defconstant common-lisp-user::zz-snap-clist '\(a b\)\)(.|\n)*\(defconstant common-lisp-user::zz-snap-csym 'abc\)/`,
	}).Test(t)
}
