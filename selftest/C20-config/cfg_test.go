package repl_test

import (
	"os"
	"path/filepath"
	"strings"
	"testing"

	"github.com/ohler55/slip"
	"github.com/ohler55/slip/pkg/repl"
)

// A changed REPL setting is saved once, under its own name, with the value it has.
func TestZZConfigSavedOnce(t *testing.T) {
	dir := t.TempDir()
	repl.SetConfigDir(dir)
	defer repl.SetConfigDir(t.TempDir())
	scope := slip.NewScope()
	_ = slip.ReadString("(setq *repl-debug* t)", scope).Eval(scope, nil)
	content, err := os.ReadFile(filepath.Join(dir, "config.lisp"))
	if err != nil {
		t.Fatal(err)
	}
	n := 0
	for _, line := range strings.Split(string(content), "\n") {
		if strings.Contains(line, "*repl-debug*") {
			n++
			if !strings.HasSuffix(strings.TrimSpace(line), " t)") {
				t.Fatalf("saved with a wrong value: %q", line)
			}
		}
	}
	if n != 1 {
		t.Fatalf("*repl-debug* saved %d times:\n%s", n, content)
	}
	_ = slip.ReadString("(setq *repl-debug* nil)", scope).Eval(scope, nil)
}
