package cl_test

import (
	"testing"

	"github.com/ohler55/slip"
	"github.com/ohler55/slip/sliptest"
)

// A variable exported before it is defined is the package's own: unuse-package of another package keeps it and
// unexport withdraws it from the using packages.
func TestZZExportBeforeDefvar(t *testing.T) {
	orig := slip.CurrentPackage
	defer func() {
		scope := slip.NewScope()
		slip.CurrentPackage = orig
		scope.Set("*package*", orig)
		slip.RemovePackage(slip.FindPackage("xb2"))
		slip.RemovePackage(slip.FindPackage("xb3"))
		slip.RemovePackage(slip.FindPackage("xb1"))
	}()
	(&sliptest.Function{
		Source: `(let ((p1 (make-package 'xb1 :use '(cl)))
                       (p2 (make-package 'xb2 :use '(cl gi)))
                       (p3 (make-package 'xb3 :use '(cl)))
                       result)
                  (use-package p1 p2)
                  (in-package p1)
                  (export 'early)
                  (defvar early 1)
                  (use-package p3 p1)
                  (unuse-package p3 p1)
                  (setq result (list (boundp 'early)))
                  (unexport 'early)
                  (in-package p2)
                  (addf result (boundp 'early))
                  result)`,
		Expect: "(t nil)",
	}).Test(t)
}
