// Demonstration for the C19 defect "the load form of a generic function writes every qualifier of a method with the
// parameter names of the first method defined for those specializers": copy to /repo/test/generic and run
// `go test -run TestVerifGenericLoadForm ./test/generic/`.
package generic_test

import (
	"testing"

	"github.com/ohler55/slip/sliptest"
)

func TestVerifGenericLoadFormQualifierNames(t *testing.T) {
	(&sliptest.Function{
		Source: `(progn
                   (defgeneric zz-gq (a b))
                   (defmethod zz-gq ((a fixnum) (b fixnum)) (+ a b))
                   (defmethod zz-gq :before ((x fixnum) (y fixnum)) (setq zz-gq-seen (list x y)))
                   (format nil "~A" (make-load-form (fdefinition 'zz-gq))))`,
		Expect: `/:before \(\(x fixnum\) \(y fixnum\)\) \(setq zz-gq-seen \(list x y\)\)/`,
	}).Test(t)
}

func TestVerifGenericLoadFormReloads(t *testing.T) {
	(&sliptest.Function{
		Source: `(progn
                   (defvar zz-gr-seen nil)
                   (defgeneric zz-gr (a b))
                   (defmethod zz-gr ((a fixnum) (b fixnum)) (+ a b))
                   (defmethod zz-gr :before ((x fixnum) (y fixnum)) (setq zz-gr-seen (list x y)))
                   (let ((form (make-load-form (fdefinition 'zz-gr))))
                     (fmakunbound 'zz-gr)
                     (eval form)
                     (list (zz-gr 1 2) zz-gr-seen)))`,
		Expect: "(3 (1 2))",
	}).Test(t)
}
