package test

import (
	"testing"

	"github.com/ohler55/slip"
	"github.com/ohler55/ojg/tt"
)

// A call to a function that is defined later passes its arguments once the function exists.
func TestZZForwardCallKeepsArguments(t *testing.T) {
	scope := slip.NewScope()
	slip.CurrentPackage.Undefine("zz-fwd-caller")
	slip.CurrentPackage.Undefine("zz-fwd-callee")
	code := slip.ReadString(`
(defun zz-fwd-caller () (+ 1 (zz-fwd-callee 20 21)))
(defun zz-fwd-callee (a b) (+ a b))
(zz-fwd-caller)`, scope)
	code.Compile()
	tt.Equal(t, slip.Fixnum(42), code.Eval(scope, nil))
	tt.Equal(t, slip.Fixnum(42), slip.ReadString("(zz-fwd-caller)", scope).Eval(scope, nil))
}
