package slip_test

import (
	"math"
	"testing"

	"github.com/ohler55/slip"
)

// SimpleObject(uint64) above the fixnum range must not wrap to a negative fixnum.
func TestVerifSimpleObjectUint64(t *testing.T) {
	got := slip.ObjectString(slip.SimpleObject(uint64(math.MaxUint64)))
	if got != "18446744073709551615" {
		t.Fatalf("SimpleObject(MaxUint64) = %s", got)
	}
}
