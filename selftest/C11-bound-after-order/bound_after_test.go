// Demonstration for the C11 defect "a message delivered through BoundReceive runs the :after daemons in the
// opposite order to a message sent with send": copy to /repo/test/flavors and run
// `go test -run TestVerifBoundAfterOrder ./test/flavors/`.
package flavors_test

import (
	"testing"

	"github.com/ohler55/ojg/tt"
	"github.com/ohler55/slip"
	"github.com/ohler55/slip/pkg/flavors"
)

func TestVerifBoundAfterOrder(t *testing.T) {
	defer undefFlavors("zzkid", "zzbase")
	scope := slip.NewScope()
	code := slip.ReadString(`
(defvar zz-log nil)
(defflavor zzbase () ())
(defflavor zzkid () (zzbase))
(defmethod (zzbase :m) () (setq zz-log (cons 'primary zz-log)))
(defmethod (zzbase :after :m) () (setq zz-log (cons 'after-base zz-log)))
(defmethod (zzkid :after :m) () (setq zz-log (cons 'after-kid zz-log)))
(defmethod (zzbase :before :m) () (setq zz-log (cons 'before-base zz-log)))
(defmethod (zzkid :before :m) () (setq zz-log (cons 'before-kid zz-log)))
(setq zz-k (make-instance 'zzkid))
`, scope)
	kid := code.Eval(scope, nil).(*flavors.Instance)

	_ = slip.ReadString(`(setq zz-log nil) (send zz-k :m)`, scope).Eval(scope, nil)
	sent := slip.ObjectString(slip.ReadString(`(reverse zz-log)`, scope).Eval(scope, nil))

	_ = slip.ReadString(`(setq zz-log nil)`, scope).Eval(scope, nil)
	_ = kid.BoundReceive(scope, ":m", nil, 0)
	bound := slip.ObjectString(slip.ReadString(`(reverse zz-log)`, scope).Eval(scope, nil))

	tt.Equal(t, "(before-kid before-base primary after-base after-kid)", sent)
	tt.Equal(t, sent, bound)
}
