package test

import (
	"testing"

	"github.com/ohler55/slip"
	"github.com/ohler55/slip/sliptest"
)

// The load form of a hash table rebuilds every entry: keys of every readable kind and values that are
// symbols or lists as data.
func TestZZHashTableLoadFormEntries(t *testing.T) {
	sliptest.LoadForm(t, slip.HashTable{slip.Character('x'): slip.Fixnum(1)})
	sliptest.LoadForm(t, slip.HashTable{slip.Fixnum(1): slip.Symbol("unbound-sym")})
	sliptest.LoadForm(t, slip.HashTable{slip.Symbol("k"): slip.List{slip.Symbol("a"), slip.Fixnum(2)}})
}
