// Demonstration for the C19 defect "snapshot writes the defflavor forms but none of the methods defined on the flavors":
// copy to /repo/test/gi and run `go test -run TestVerifSnapshotFlavorMethods ./test/gi/`.
package gi_test

import (
	"testing"

	"github.com/ohler55/slip/sliptest"
)

func TestVerifSnapshotFlavorMethods(t *testing.T) {
	(&sliptest.Function{
		Source: `(progn
                   (defflavor zz-snapb ((a 1)) () :gettable-instance-variables)
                   (defflavor zz-snapf () (zz-snapb))
                   (defmethod (zz-snapb :twice) () (* 2 a))
                   (defmethod (zz-snapf :before :twice) () nil)
                   (defwhopper (zz-snapf :twice) () (1+ (continue-whopper)))
                   (snapshot nil))`,
		Expect: `/\(defmethod \(zz-snapb :primary :twice\)(.|\n)*\(defmethod \(zz-snapf :before :twice\)(.|\n)*\(defmethod \(zz-snapf :whopper :twice\)/`,
	}).Test(t)
}
