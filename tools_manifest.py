#!/usr/bin/env python3
# regenerates MANIFEST.json from the table below (development helper)
import json
props=[json.loads(l) for l in open('/verif/properties.jsonl')]
ids=[p['id'] for p in props]
CHECKS={
 "C09":dict(cat="proof",tech="contract-based deductive verification: zero-annotation safety contracts on every built-in Call method, weakest preconditions over go/ssa, discharged by z3; failed obligations replayed on the real code",
   text="Every index, slice, unchecked type assertion, integer division, nil-map write, dynamic map key and make size reachable in the Call methods of the built-ins (pkg/cl quick; cl gi bag clos flavors generic thorough) is a proof obligation over ALL argument lists; discharged ones are proved for every input, regressions against the pinned baseline or replayed faults are violations, undecided candidates are listed and not claimed.",
   note="Trusted: go/ssa, the slipvc SSA->SMT translation, the solvers, library code outside the module; callees that are not inlined are abstracted by havoc; nil dereference, termination and allocation bounds are not covered (the 'bounded time' clause is not decided).",
   ref="DESIGN 3 C09, 2.4 family S"),
}
CHECKS["C05"]=dict(cat="proof",tech="contract-based deductive verification: ghost exact value vs two's-complement machine value on every fixnum result of the numeric built-ins, contract on NormalizeNumber, safety obligations; WP over go/ssa; z3",
   text="For the arithmetic built-ins (+ - * / floor ceiling truncate round mod rem abs 1+ 1- incf decf gcd lcm ash isqrt expt) every 64-bit integer that is boxed into a Lisp object, returned, stored or passed on must equal the mathematical value of the expression that computed it, for all operand values; NormalizeNumber is proved to return both operands in one representation and fixnum pairs unchanged. Code that tests for overflow before using a result verifies; silent wrap-around fails the obligation.",
   note="math/big is assumed exact; float branches, bignum/ratio functional correctness and comparison coherence are not yet under contract (listed in the evidence); replay oracle = math/big on the boundary grid (harness/arith).",
   ref="DESIGN 3 C05, family I")
CHECKS["C20"]=dict(cat="proof",tech="contract-based deductive verification: sequence postconditions on Stash.clear over the slice/heap model (copy, reslice, loop frame invariants found by Houdini); WP over go/ssa; z3",
   text="Stash.clear (shared by History) is proved, for all lengths and index arguments, to remove exactly the forms numbered start..end and keep every other form in order (length, prefix, suffix and no-op frame clauses), with a must-fail canary.",
   note="Only the in-memory clause is under contract so far; file-system crash points and restart decoding are not yet covered (see DESIGN 3 C20).",
   ref="DESIGN 3 C20")
CHECKS["C04"]=dict(cat="proof",tech="contract-based deductive verification: documentation-derived arity contracts (FuncDoc lambda list vs the CheckArgCount guard reached in Call, helpers inlined) on every built-in; WP over go/ssa; z3; disagreements replayed on the real code",
   text="For every built-in with a FuncDoc (567 in pkg/cl quick; all packages thorough) the contract generated from its own documented lambda list requires that the arity guard reached on every path of Call uses exactly the documented minimum and maximum, and that no return is reached without a guard; proved per function for all argument counts. Disagreements are replayed by calling the real function with n arguments.",
   note="Guards that are not calls of slip.CheckArgCount (hand-written length tests) are undecided, not claimed; lambda-list binding of user lambdas (Lambda.Call) is not yet under contract; known findings are keyed by obligation and by the set of argument counts on which documentation and code differ.",
   ref="DESIGN 3 C04, family A")
CHECKS["C06"]=dict(cat="proof",tech="contract-based deductive verification: frame/ownership contracts on the list built-ins (no store, append-in-place or copy into an array that existed at entry; result freshly allocated or a true tail view), ownership loop invariants found by Houdini; WP over go/ssa with an exact slice/backing-array model; z3",
   text="For the non-destructive list functions (cons append butlast subseq copy-list reverse remove* list* mapcar push substitute set functions; cdr/nthcdr/last/member as tail-returning) every store, append and copy must target storage allocated by the activation itself, and a returned list must be fresh or a true tail of an argument - for all argument lists, lengths and capacities. Delete.inList, shared with remove, carries the no-write contract. Stash.clear's sequence contract is included.",
   note="Callees that are not inlined are abstracted; lists returned by opaque callees are not known to be fresh (undecided). Destructive functions' window frames (M3) and insertMethod are not yet under contract. Replay oracle: storage overlap and argument snapshots on lists with spare capacity (harness/listalias).",
   ref="DESIGN 3 C06, family M")
CHECKS["C01"]=dict(cat="proof",tech="contract-based deductive verification: contracts over a ghost evaluation trace (which sub-form is evaluated, how often, in which order, in which scope, with which result) on the evaluator's special forms, loop invariants, program-point assertions; WP over go/ssa; z3",
   text="when unless if and or let let* setq dolist dotimes do (setupDo) lambda and DefLambda carry contracts taken from the language rules: the test form first and once, only the selected branch, body forms left to right exactly once, the value of the last form, init forms of let/do in the enclosing scope and of let* in the new one, the dolist result form sees the variable bound to nil, every evaluation of a lambda expression yields a new closure. Proved for all argument lists and all results of the sub-forms (each evaluation is an arbitrary ghost event).",
   note="Every evaluation of a sub-form is abstracted as one event with arbitrary result and arbitrary heap effect; composition over nested forms is a meta-argument; Function.Eval argument order, cond/case clause selection, closure variable lookup order and iteration-form step order are not yet under contract.",
   ref="DESIGN 3 C01, family T")
CHECKS["C07"]=dict(cat="proof",tech="contract-based deductive verification: ghost evaluation trace (exit markers forwarded, nothing evaluated after them), ghost lock balance with path-sensitive deferred calls, fresh result markers; WP over go/ssa; z3",
   text="when unless if and or let let* block with-mutex-lock: after a sub-form returns a return-from/go marker no further sub-form is evaluated and the marker is the result; block stops at the marker; return-from allocates its own marker per call; unwind-protect evaluates the protected form then every cleanup form exactly once in order on every non-error path (deferred closure inlined); with-mutex-lock holds the mutex during every body form and the lock balance at every return equals the balance at entry.",
   note="Panicking exits (conditions) are not explored, so cleanup-on-error and release-on-error are not covered; tagbody/go target lookup, dolist/dotimes/do exit handling, with-open-file, ignore-errors and recover are not yet under contract.",
   ref="DESIGN 3 C07, family T")
CHECKS["C03"]=dict(cat="proof",tech="contract-based deductive verification: contracts on Symbol/Fixnum/Bignum Readably (quoting-scan loop invariant, radix prefix against abstract digit sequences of the assumed strconv/big contracts) and 512 per-byte lemmas between the printer's needPipeMap and the reader's mode tables (constants extracted from /repo); WP over go/ssa; z3",
   text="Symbol.Readably is proved to put a symbol between pipes whenever any of its bytes needs them (all lengths, all bytes), Fixnum/Bignum.Readably to write exactly the radix prefix of the base the digits are written in for every base and radix setting, and the per-byte lemmas state that a byte the printer leaves unquoted lexes as part of a plain token and that every byte inside pipes is kept by the reader; failing bytes are replayed by printing and re-reading a symbol that contains them.",
   note="Digit conversion and its inverse (strconv, math/big, the reader's number parser) are assumed; floats, ratios, strings, characters, vectors/arrays and the pretty printer are not under contract.",
   ref="DESIGN 3 C03, families B, T")
CHECKS["C02"]=dict(cat="proof",tech="contract-based deductive verification: sequence postcondition on reader.makeToken, on-store assertions (every store to reader.carry in read extends the carried bytes by exactly the pending window of the block; the escape buffer is empty when a string or |symbol| starts), end-of-input postcondition, on-call assertion on the stream position in cl:read; WP over go/ssa; z3",
   text="makeToken is proved to return carried bytes followed by the block's pending window and to empty the carry (all lengths); in read every store to the carry buffer is proved to append exactly src[tokenStart:pos] to what was carried, the stores that enter string/symbol mode to happen with an empty escape buffer, and a normal return at the end of the input to leave no open form on the stack; cl:read repositions a seekable stream to start + consumed length.",
   note="Per-arm delivery independence (the alpha refinement of DESIGN 3 C02) is not built; the window precondition tokenStart <= pos of makeToken is not established for read on the pinned tree (undecided, listed). The replay harness compares whole-text and chunked reads and ignores inputs that already fail on the pinned tree (baseline/C02.readcut.json, 81 inputs).",
   ref="DESIGN 3 C02, families R (partial), S")
NA={}
m=json.load(open('/verif/MANIFEST.json'))
m['checks']=[]
for i in ids:
    if i in CHECKS:
        c=CHECKS[i]
        m['checks'].append({"property_id":i,"quick_cmd":"./check %s quick"%i,"thorough_cmd":"./check %s thorough"%i,
          "evidence_file":"/verif/evidence/%s.json"%i,"replay_cmd_template":"cat {path}","engine":"slipvc",
          "level_claimed":{"category":c['cat'],"text":c['text'],"design_ref":c['ref']},"level_note":c['note'],"technique":c['tech']})
old={x['property_id']:x['reason'] for x in m.get('not_applicable',[])}
m['not_applicable']=[{"property_id":i,"reason":NA.get(i,old.get(i,"check not built yet"))} for i in ids if i not in CHECKS]
m['engines'][0]['serves_properties']=sorted(CHECKS)
json.dump(m,open('/verif/MANIFEST.json','w'),indent=1)
